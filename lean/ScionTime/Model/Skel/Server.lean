/-
  Control skeletons of core/server as the models were written against them
  (notes/SKEL.md).  Each row: (depth, canonical text) as rendered by harness/extract/skeleton.go,
  followed by the model definition / branch that mirrors the statement.  Regenerated rows:
  Gen/SkelC06.lean; pins: Props/SkelC06.lean.  Core Lean only.
-/
import ScionTime.Model.Skel.Basic

namespace ScionTime.Model.Skel

/-- core/server, handleRequest -/
def Server.handleRequest : List Row := [
  (0, "func handleRequest(clientID string, req *ntp.Packet, rxt, txt *time.Time, resp *ntp.Packet)"),  -- Server.handleRequestG (handleRequest := handleRequestG true; harness op srv.hr)
  (1, "resp.SetVersion(ntp.VersionMax)"),  -- ServerReply.replyLvm / replyHeader: version 4
  (1, "resp.SetMode(ntp.ModeServer)"),  -- ServerReply.replyLvm / replyHeader: mode 4
  (1, "resp.Stratum = 1"),  -- ServerReply.replyStratum
  (1, "resp.Poll = req.Poll"),  -- ServerReply.replyHeader: poll copied from the request
  (1, "resp.Precision = -32"),  -- ServerReply.replyPrecision
  (1, "resp.RootDispersion = ntp.Time32{Seconds: 0, Fraction: 10}"),  -- ServerReply.replyRootDispersion
  (1, "resp.ReferenceID = serverRefID"),  -- ServerReply.serverRefID
  (1, "*txt = timebase.Now()"),  -- Server.handleRequestG: argument `now`
  (1, "if !rxt.Before(*txt)"),  -- Server.handleRequestG: txt0, `strict` branch (the repair of F9)
  (2, "*txt = rxt.Add(1)"),  -- Server.handleRequestG: txt0 = rxt0 + 1
  (1, "rxt64 := ntp.Time64FromTime(*rxt)"),  -- Server.handleRequestG: rxt64 := ofTime …
  (1, "txt64 := ntp.Time64FromTime(*txt)"),  -- Server.handleRequestG: txt64 := ofTime …
  (1, "tssMu.Lock()"),  -- Mutex.lean / C07 lock-discipline fact (x_c07.go): the store is a sequential state machine
  (1, "defer tssMu.Unlock()"),  -- Mutex.lean / C07 lock-discipline fact: released on every exit
  (1, "var o, min, max int"),  -- Server.Scan: o, mn, mx (−1 = none)
  (1, "tssi, ok := tss[clientID]"),  -- Server.handleRequestG: match st.items.find id
  (1, "if ok"),  -- Server.handleRequestG: | some it
  (2, "for"),  -- Server.uniq: outer loop (fuel len + 1, Props/C06)
  (3, "var i int"),  -- Server.collides / scanAux: loop index
  (3, "for i, o, min, max = 0, -1, -1, -1; i != tssi.len; i++"),  -- Server.scan: init ⟨none, none, none⟩; one pass = collides + scanAux
  (4, "if tssi.buf[i].rxt == rxt64"),  -- Server.collides: e.rx == v
  (5, "break"),  -- Server.collides = true: inner loop left with i ≠ len
  (4, "if tssi.buf[i].rxt == req.OriginTime"),  -- Server.scanStep: o
  (5, "o = i"),  -- Server.scanStep: o := some i
  (4, "if min == -1 || tssi.buf[i].rxt.Before(tssi.buf[min].rxt)"),  -- Server.scanStep: mn (none, or before e.rx v)
  (5, "min = i"),  -- Server.scanStep: mn := some (i, e.rx)
  (4, "if max == -1 || !tssi.buf[i].rxt.Before(tssi.buf[max].rxt)"),  -- Server.scanStep: mx (none, or !before e.rx v)
  (5, "max = i"),  -- Server.scanStep: mx := some (i, e.rx)
  (3, "if i != tssi.len"),  -- Server.uniq: if collides buf (ofTime rxt)
  (4, "*rxt = rxt.Add(1)"),  -- Server.uniq: rxt + 1
  (4, "rxt64 = ntp.Time64FromTime(*rxt)"),  -- Server.uniq / handleRequestG: rxt64 := ofTime u.1
  (4, "if !rxt.Before(*txt)"),  -- Server.uniq: txt := if ¬ (rxt < txt) then rxt + 1
  (5, "*txt = *rxt"),  -- Server.uniq: rxt + 1, first half
  (5, "*txt = txt.Add(1)"),  -- Server.uniq: rxt + 1, second half
  (5, "txt64 = ntp.Time64FromTime(*txt)"),  -- Server.handleRequestG: txt64 := ofTime u.2
  (4, "continue"),  -- Server.uniq: recursive call
  (3, "break"),  -- Server.uniq: else (rxt, txt)
  (1, "else"),  -- Server.handleRequestG: | none
  (2, "if len(tss) == tssCap && !tssQ[0].qval.After(rxt64)"),  -- Server.evict (index tssQ[0]: hrPanics)
  (3, "x := heap.Pop(&tssQ).(*tssItem)"),  -- Server.popMin: heap.Pop
  (3, "delete(tss, x.key)"),  -- Server.popMin: erase
  (2, "if len(tss) == tssCap"),  -- Server.handleRequestG: if st1.items.length = cap
  (3, "tssi = nil"),  -- Server.handleRequestG: result without an item ⟨st1, reply, rxt0, txt0, ev.2⟩
  (2, "else"),  -- Server.handleRequestG: else
  (3, "tssi = &tssItem{key: clientID}"),  -- Server.handleRequestG: it := { buf := [], qval := rxt64, qidx := 0 }
  (3, "tss[tssi.key] = tssi"),  -- Server.handleRequestG: items := (id, it) :: st1.items
  (3, "tssi.qval = rxt64"),  -- Server.handleRequestG: it.qval := rxt64
  (3, "heap.Push(&tssQ, tssi)"),  -- Server.push
  (2, "o, min, max = -1, -1, -1"),  -- Server.handleRequestG: mkReply … none; entry appended (st3)
  (1, "resp.ReferenceTime = txt64"),  -- Server.mkReply: ref := txt64
  (1, "resp.ReceiveTime = rxt64"),  -- Server.mkReply: rx := rxt64
  (1, "if req.ReceiveTime != req.TransmitTime && o != -1"),  -- Server.mkReply: served = some e ∧ req.rx ≠ req.tx
  (2, "resp.OriginTime = req.ReceiveTime"),  -- Server.mkReply: org := req.rx (inter := true)
  (2, "resp.TransmitTime = tssi.buf[o].txt"),  -- Server.mkReply: tx := e.tx
  (1, "else"),  -- Server.mkReply: basic-mode branches
  (2, "resp.OriginTime = req.TransmitTime"),  -- Server.mkReply: org := req.tx
  (2, "resp.TransmitTime = txt64"),  -- Server.mkReply: tx := txt64
  (1, "if tssi != nil"),  -- Server.handleRequestG: the two branches that store (some it; none with room)
  (2, "if max != -1 && rxt64.After(tssi.buf[max].rxt)"),  -- Server.hrFix
  (3, "tssi.qval = rxt64"),  -- Server.fixQval: setQval
  (3, "heap.Fix(&tssQ, tssi.qidx)"),  -- Server.fixQval: fix
  (2, "if o != -1"),  -- Server.storeEntry: | some o
  (3, "tssi.buf[o].rxt = rxt64"),  -- Server.storeEntry: buf.set o e (rx)
  (3, "tssi.buf[o].txt = txt64"),  -- Server.storeEntry: buf.set o e (tx)
  (2, "else if tssi.len == cap(tssi.buf)"),  -- Server.storeEntry: buf.length = icap
  (3, "tssi.buf[min].rxt = rxt64"),  -- Server.storeEntry: buf.set m e (rx)
  (3, "tssi.buf[min].txt = txt64"),  -- Server.storeEntry: buf.set m e (tx)
  (2, "else"),  -- Server.storeEntry: else
  (3, "tssi.buf[tssi.len].rxt = rxt64"),  -- Server.storeEntry: buf ++ [e] (rx)
  (3, "tssi.buf[tssi.len].txt = txt64"),  -- Server.storeEntry: buf ++ [e] (tx)
  (3, "tssi.len++")  -- Server.storeEntry: buf ++ [e] (length)
  ]

/-- core/server, updateTXTimestamp -/
def Server.updateTXTimestamp : List Row := [
  (0, "func updateTXTimestamp(clientID string, rxt time.Time, txt *time.Time)"),  -- Server.updateTX (harness op srv.utx)
  (1, "tssMu.Lock()"),  -- Mutex.lean / C07 lock-discipline fact
  (1, "defer tssMu.Unlock()"),  -- Mutex.lean / C07 lock-discipline fact: released on every exit
  (1, "if !rxt.Before(*txt)"),  -- Server.updateTX: txt := if ¬ (rxt < txt1)
  (2, "*txt = rxt"),  -- Server.updateTX: rxt + 1, first half
  (2, "*txt = txt.Add(1)"),  -- Server.updateTX: rxt + 1, second half
  (1, "tssi, ok := tss[clientID]"),  -- Server.updateTX: match st.items.find id
  (1, "if ok"),  -- Server.updateTX: | some it (| none => (st, txt))
  (2, "rxt64 := ntp.Time64FromTime(rxt)"),  -- Server.updateTX: rxt64
  (2, "txt64 := ntp.Time64FromTime(*txt)"),  -- Server.updateTX: txt64
  (2, "var i, x, max0, max1 int"),  -- Server.Scan2: x, m0, m1
  (2, "for i, x, max0, max1 = 0, -1, -1, -1; i != tssi.len; i++"),  -- Server.scan2: init ⟨none, none, none⟩, scan2Aux
  (3, "if tssi.buf[i].rxt == rxt64"),  -- Server.scan2Step: x
  (4, "x = i"),  -- Server.scan2Step: x := some i
  (3, "if max0 == -1 || !tssi.buf[i].rxt.Before(tssi.buf[max0].rxt)"),  -- Server.scan2Step: m0 (none, or !before e.rx v)
  (4, "max0, max1 = i, max0"),  -- Server.scan2Step: m0 := some (i, e.rx), m1 := old m0
  (3, "else if max1 == -1 || !tssi.buf[i].rxt.Before(tssi.buf[max1].rxt)"),  -- Server.scan2Step: m1 (none, or !before e.rx v')
  (4, "max1 = i"),  -- Server.scan2Step: m1 := some (i, e.rx)
  (2, "if x != -1"),  -- Server.updateTX: match sc.x | some x
  (3, "if tssi.buf[x].txt != txt64"),  -- Server.updateTX: if ex.tx ≠ txt64
  (4, "tssi.buf[x].txt = txt64"),  -- Server.updateTX: b.set x { ex with tx := txt64 }
  (3, "else"),  -- Server.updateTX: else
  (4, "if tssi.len == 1"),  -- Server.updateTX: if it.buf.length = 1
  (5, "heap.Remove(&tssQ, tssi.qidx)"),  -- Server.remove: heap.Remove
  (5, "delete(tss, tssi.key)"),  -- Server.remove: erase
  (4, "else"),  -- Server.updateTX: else
  (5, "if tssi.buf[max0].rxt == rxt64"),  -- Server.utxFix: v0 = rxt64
  (6, "tssi.qval = tssi.buf[max1].rxt"),  -- Server.utxFix: fixQval … v1
  (6, "heap.Fix(&tssQ, tssi.qidx)"),  -- Server.utxFix: fix
  (5, "tssi.buf[x] = tssi.buf[tssi.len-1]"),  -- Server.updateTX: b.set x (last entry)
  (5, "tssi.len--")  -- Server.updateTX: dropLast
  ]

/-- core/server, runIPServer -/
def Server.runIPServer : List Row := [
  (0, "func runIPServer(ctx context.Context, log *slog.Logger, mtrcs *ipServerMetrics, conn *net.UDPConn, iface string, dscp uint8, provider *ntske.Provider)"),  -- ServerReply.runLoopN / ListenerTx.runEvs: goroutine = fold over datagrams (harness c09 ip.hist, c06tx tx.hist)
  (1, "defer conn.Close()"),  -- env: defer conn.Close(); the loop has no exit, so it only runs on a panic
  (1, "err := udp.EnableTimestamping(conn, iface)"),  -- env: socket option set-up; its effect enters ListenerTx as Ev.ntp krx (rx stamp) and KB (tx stamp delivery)
  (1, "if err != nil"),  -- env: error is only logged, loop runs without kernel stamps = Ev.ntp krx none / KB.never (c06tx regime none)
  (1, "err = udp.SetDSCP(conn, dscp)"),  -- env: socket option set-up (IP_TOS / IPV6_TCLASS), no model input
  (1, "if err != nil"),  -- env: error is only logged
  (1, "var txid uint32"),  -- ListenerTx.LSock.init: txid := 0 (Nat for uint32; fewer than 2^31 datagrams per socket assumed)
  (1, "buf := make([]byte, 2048)"),  -- ServerReply.ipServerBufLen: 2048; pin C09_pin_ipServerBufLen (x_c09.go)
  (1, "oob := make([]byte, udp.TimestampLen())"),  -- env: buffer allocation for the control data (CmsgSpace(48) = 64 bytes, one SO_TIMESTAMPING_NEW cmsg)
  (1, "for"),  -- ServerReply.runLoopN / ListenerTx.runEvs: recursion over the list of datagrams (endless loop, no exit)
  (2, "buf = buf[:cap(buf)]"),  -- ServerReply.loopIter: restoreAtTop = true, bl := ipServerBufLen; pin C09_pin_restoreAtLoopTop (x_c09.go)
  (2, "oob = oob[:cap(oob)]"),  -- pin C09_pin_restoreAtLoopTop (x_c09.go): second statement of the loop body; no model state for oob
  (2, "n, oobn, flags, srcAddr, err := conn.ReadMsgUDPAddrPort(buf, oob)"),  -- env: kernel read; inputs: payload (ServerReply.serveWith), oob (Ev.ntp krx), srcAddr (ClientId.clientIdIp)
  (2, "if err != nil"),  -- UNMODELLED: read error (closed socket...) is no input of any model; retried for ever, goroutine never returns
  (3, "continue"),  -- ListenerTx.stepEv: | .drop sk (world unchanged), by analogy only: the failed read is not an event (row 13)
  (2, "if flags != 0"),  -- ServerReply.serveWith: if payload.length > bufLen then .dropTruncated (MSG_TRUNC only; MSG_CTRUNC is no input)
  (3, "continue"),  -- ServerReply.loopIter: | .dropTruncated => bl (continue before buf = buf[:n]); ListenerTx.stepEv: | .drop sk
  (2, "oob = oob[:oobn]"),  -- UNMODELLED: oob cut to this datagram's control bytes; no model keeps oob contents across iterations (stale rx)
  (2, "rxt, err := udp.TimestampFromOOBData(oob)"),  -- Udp.timestampFromOOBData (walkGen true; harness c08 op udp.oob); its verdict is ListenerTx.Ev.ntp krx
  (2, "if err != nil"),  -- ListenerTx.stepEv: rxt0 := krx.getD nowRx, case krx = none
  (3, "oob = oob[:0]"),  -- env: dead store in the IP listener (oob is not read again before row 11; the SCION listener forwards oob)
  (3, "rxt = timebase.Now()"),  -- ListenerTx.stepEv: rxt0 := nowRx (timebase.Now()); Props C06Tx.C06_rx_fallback; harness c06tx regime none
  (2, "buf = buf[:n]"),  -- ServerReply.loopIter: | _ => d.1.length (length left behind); payload = buf[:n] is the argument of serveWith
  (2, "var ntpreq ntp.Packet"),  -- pin C09_pin_requestStateInLoop (x_c09.go): declared zero-valued inside the loop body before ntp.DecodePacket
  (2, "err = ntp.DecodePacket(&ntpreq, buf)"),  -- NtpPacket.decodePacket, called in ServerReply.serveWith: match decodePacket payload (harness c09 op vreqpkt)
  (2, "if err != nil"),  -- ServerReply.serveWith: | .err _ => .dropDecode (| .panic c => .crash c)
  (3, "continue"),  -- ServerReply.loopIter: dropDecode, buffer left at d.1.length; ListenerTx.stepEv: | .drop sk
  (2, "var authenticated bool"),  -- ServerReply.ntsBranch: result .1 / serve: ntsOk (false unless the branch succeeds); per-iteration reset not pinned
  (2, "var ntsreq nts.Packet"),  -- ServerReply.loopIterN: freshNts = true (carried := []); pin C09_pin_requestStateInLoop (x_c09.go)
  (2, "var serverCookie ntske.ServerCookie"),  -- pin C09_pin_requestStateInLoop (x_c09.go): zero-valued per iteration; Nts.serverReplyG: sc
  (2, "if len(buf) > ntp.PacketLen"),  -- ServerReply.serveWith: payload.length > packetLen; ServerReply.entersNts; pin C09_pin_PacketLen
  (3, "err = nts.DecodePacket(&ntsreq, buf)"),  -- Nts.serverReplyG: d <- decodePacketG fixed b; ServerReply.NtsView: decodes, cookies; pin C11_pin_ntsBranch
  (3, "if err != nil"),  -- Nts.serverReplyG: bind on .err (request dropped); ServerReply.ntsBranch: v.decodes = false
  (4, "continue"),  -- ServerReply.serveWith: .dropNts (payload.length > packetLen and ntsOk = false)
  (3, "cookie, err := ntsreq.FirstCookie()"),  -- Nts.serverReplyG: cookie <- firstCookie d; ServerReply.ntsBranch: match all with | c :: _
  (3, "if err != nil"),  -- Nts.firstCookie: | [] => .err .noCookies; ServerReply.ntsBranch: | [] => false
  (4, "continue"),  -- ServerReply.serveWith: .dropNts
  (3, "var encryptedCookie ntske.EncryptedServerCookie"),  -- env: declaration, zero value filled by Decode in the next row
  (3, "err = encryptedCookie.Decode(cookie)"),  -- Nts.serverReplyG: ec <- decodeTLV fixed cookieTypeKeyID cookieTypeNonce cookieTypeCiphertext cookie (ecDecode)
  (3, "if err != nil"),  -- Nts.serverReplyG: bind on .err; ServerReply.NtsView.okWith c = false
  (4, "continue"),  -- ServerReply.serveWith: .dropNts
  (3, "key, ok := provider.Get(int(encryptedCookie.ID))"),  -- Nts.serverReplyG: match keys ec.num; Provider.useStep: | .ntp, get s id t; pin C12_pin_keyUse_runIPServer
  (3, "if !ok"),  -- Nts.serverReplyG: | none => .err .noKey; Provider.useStep: | none => (s, nothing opened); pin C12 ok-checked
  (4, "continue"),  -- ServerReply.serveWith: .dropNts
  (3, "serverCookie, err = encryptedCookie.Decrypt(key.Value)"),  -- Nts.serverReplyG: sc <- decryptCookieG fixed A ec key; Provider.Outcome.opened; pin C12_pin_keyUse_runIPServer
  (3, "if err != nil"),  -- Nts.serverReplyG: bind on .err; ServerReply.NtsView.okWith c = false
  (4, "continue"),  -- ServerReply.serveWith: .dropNts
  (3, "err = nts.ProcessRequest(buf, serverCookie.C2S, &ntsreq)"),  -- Nts.serverReplyG: cs <- processRequestG fixed A b sc.y d (sc.y = C2S; cs = ntsreq.Cookies afterwards)
  (3, "if err != nil"),  -- Nts.serverReplyG: bind on .err; ServerReply.NtsView.okWith c = false; Provider.useStep: auth = false
  (4, "continue"),  -- ServerReply.serveWith: .dropNts
  (3, "authenticated = true"),  -- ServerReply.ntsBranch: result .1 = true (ntsOk); Provider.useStep: | .ntp, auth = true
  (2, "err = ntp.ValidateRequest(&ntpreq, srcAddr.Port())"),  -- NtpPacket.validateRequest req.lvm in ServerReply.serveWith (srcPort unused; after the NTS branch; c09 op vreq)
  (2, "if err != nil"),  -- ServerReply.serveWith: else if validateRequest req.lvm = false then .dropValidate
  (3, "continue"),  -- ServerReply.loopIter: dropValidate, buffer left at d.1.length; ListenerTx.stepEv: | .drop sk
  (2, "clientID := srcAddr.Addr().String()"),  -- ClientId.clientIdIp host; pins C06_pin_clientIdIp_operands, C06_pin_clientID_passed (x_c06.go); c09 op ip.ident
  (2, "var txt0 time.Time"),  -- env: declaration; out-parameter *txt of handleRequest (Server.HR.txt, Out.txt0)
  (2, "var ntpresp ntp.Packet"),  -- ServerReply.replyLvm: zero packet, LVM = 0 (leap indicator 0); ServerReply.replyHeader: rootDelay 0
  (2, "handleRequest(clientID, &ntpreq, &rxt, &txt0, &ntpresp)"),  -- ListenerTx.stepEv: hr := handleRequest cap icap w.store cl req rxt0 now (Server.handleRequestG true)
  (2, "ntp.EncodePacket(&buf, &ntpresp)"),  -- NtpPacket.encodePacket (48 bytes); ServerReply.loopIter: | .reply => packetLen; Nts.serverReplyG: argument hdr
  (2, "if authenticated"),  -- Nts.serverReplyG: part after processRequestG (else the 48-byte reply goes out); harness c09 op ip.hist kinds a/p
  (3, "var cookies [][]byte"),  -- Nts.freshCookies: result list, | 0, r => ([], r)
  (3, "key := provider.Current()"),  -- Nts.serverReplyG: curId curKey; Provider.useStep: current P s c1 c2; pin C12_pin_keyUse_runIPServer (x_c12.go)
  (3, "addedCookie := false"),  -- Nts.serverReplyG: fresh.isEmpty (addedCookie = not fresh.isEmpty)
  (3, "for range len(ntsreq.Cookies) + len(ntsreq.CookiePlaceholders)"),  -- Nts.freshCookies: fuel n := cs.length + d.nph (Nts.serverReplyG); pin C11_pin_ntsBranch: range(...) (x_c11.go)
  (4, "encryptedCookie, err := serverCookie.EncryptWithNonce(key.Value, key.ID)"),  -- Nts.freshCookies: encryptCookie A sc curKey curId nonce, nonce = draw16 of the crypto/rand stream
  (4, "if err != nil"),  -- Nts.freshCookies: match encryptCookie ... | _ => (cs, r'') (this field is skipped)
  (5, "continue"),  -- Nts.freshCookies: | _ => (cs, r'') (next field)
  (4, "cookie := encryptedCookie.Encode()"),  -- Nts.freshCookies: ecEncode ec
  (4, "cookies = append(cookies, cookie)"),  -- Nts.freshCookies: ecEncode ec :: cs (first encrypted cookie first)
  (4, "addedCookie = true"),  -- Nts.serverReplyG: fresh.isEmpty = false
  (3, "if !addedCookie"),  -- Nts.serverReplyG: if fresh.isEmpty then .err .noCookies; ServerReply.serve folds it into ntsOk = false
  (4, "continue"),  -- UNMODELLED: continue AFTER handleRequest recorded (rx, txt0): no reply, no updateTXTimestamp; models drop earlier
  (3, "ntsresp := nts.NewResponsePacket(cookies, serverCookie.S2C, ntsreq.UniqueID.ID)"),  -- Nts.serverReplyG: pkt <- newResponsePacketG fixed fresh sc.x d.uid (sc.x = S2C; .panic .index on an empty list)
  (3, "nts.EncodePacket(&buf, &ntsresp)"),  -- Nts.serverReplyG: encodePacketG fixed A hdr pkt (draw16 rnd').1 (pack errors panic: errToPanic); c10 op srv.reply
  (2, "n, err = conn.WriteToUDPAddrPort(buf, srcAddr)"),  -- ListenerTx.sendRead: s1 := s.send kb (LSock.send: kernel numbers the datagram); pin C06_pin_txPostSend: 1 site
  (2, "if err != nil || n != len(buf)"),  -- pin C06_pin_txPostSend (x_c06tx.go): send followed by its err != nil check; the failure is no model input (row 76)
  (3, "continue"),  -- UNMODELLED: write failed after handleRequest recorded (rx, txt0): no Ev for it; txid kept though kernel may count
  (2, "txt1, id, err := udp.ReadTXTimestamp(conn)"),  -- ListenerTx.reads: first call (kernelRead; ListenerTx.readTX, harness c06tx op udp.rtx); pin C06_pin_txPostSend
  (2, "for err == nil && int32(id-txid) < 0"),  -- ListenerTx.reads: if fixed && decide (s.id < txid) (F20 repair; Nat instead of the int32 wrap-around comparison)
  (3, "txt1, id, err = udp.ReadTXTimestamp(conn)"),  -- ListenerTx.reads: recursive call, nreads + 1 (Props C06Tx.C09_reads_bounded)
  (2, "if err != nil"),  -- ListenerTx.decide3: if r.2.2 != .none
  (3, "txt1 = txt0"),  -- ListenerTx.decide3: (txt0, ...) fallback to the software reading
  (3, "txid++"),  -- ListenerTx.decide3: if fixed then txid + 1 (F20 repair); pin C06_pin_txidAssignments (x_c06tx.go)
  (2, "else if id != txid"),  -- ListenerTx.decide3: else if r.2.1 != txid
  (3, "txt1 = txt0"),  -- ListenerTx.decide3: (txt0, r.2.1 + 1) first component
  (3, "txid = id + 1"),  -- ListenerTx.decide3: (txt0, r.2.1 + 1) second component; pin C06_pin_txidAssignments
  (2, "else"),  -- ListenerTx.decide3: else (r.1, txid + 1): the kernel stamp of this very datagram
  (3, "txid++"),  -- ListenerTx.decide3: txid + 1; pin C06_pin_txidAssignments
  (2, "updateTXTimestamp(clientID, rxt, &txt1)")  -- ListenerTx.stepEv: u := updateTX hr.st cl hr.rxt p.txt1; pins C06_pin_txPostSend, C06_pin_clientID_passed
  ]

/-- core/server, runSCIONServer -/
def Server.runSCIONServer : List Row := [
  (0, "func runSCIONServer(ctx context.Context, log *slog.Logger, mtrcs *scionServerMetrics, conn *net.UDPConn, localHostIface string, localHostPort int, dscp uint8, fetcher *scion.Fetcher, provider *ntske.Provider)"),  -- ?
  (1, "defer conn.Close()"),  -- ?
  (1, "localConnPort := conn.LocalAddr().(*net.UDPAddr).Port"),  -- ?
  (1, "err := udp.EnableTimestamping(conn, localHostIface)"),  -- ?
  (1, "if err != nil"),  -- ?
  (1, "err = udp.SetDSCP(conn, dscp)"),  -- ?
  (1, "if err != nil"),  -- ?
  (1, "var txid uint32"),  -- ?
  (1, "buf := make([]byte, scion.MTU)"),  -- ?
  (1, "oob := make([]byte, udp.TimestampLen())"),  -- ?
  (1, "var ( scionLayer slayers.SCION hbhLayer slayers.HopByHopExtnSkipper e2eLayer slayers.EndToEndExtn udpLayer slayers.UDP scmpLayer slayers.SCMP )"),  -- ?
  (1, "scionLayer.RecyclePaths()"),  -- ?
  (1, "udpLayer.SetNetworkLayerForChecksum(&scionLayer)"),  -- ?
  (1, "scmpLayer.SetNetworkLayerForChecksum(&scionLayer)"),  -- ?
  (1, "parser := gopacket.NewDecodingLayerParser( slayers.LayerTypeSCION, &scionLayer, &hbhLayer, &e2eLayer, &udpLayer, &scmpLayer)"),  -- ?
  (1, "parser.IgnoreUnsupported = true"),  -- ?
  (1, "decoded := make([]gopacket.LayerType, 4)"),  -- ?
  (1, "buffer := gopacket.NewSerializeBuffer()"),  -- ?
  (1, "options := gopacket.SerializeOptions{ ComputeChecksums: true, FixLengths: true}"),  -- ?
  (1, "var authBuf, authMAC, authMockKey []byte"),  -- ?
  (1, "if fetcher != nil"),  -- ?
  (2, "authBuf = make([]byte, spao.MACBufferSize)"),  -- ?
  (2, "authMAC = make([]byte, scion.PacketAuthMACLen)"),  -- ?
  (2, "if scion.UseMockKeys()"),  -- ?
  (3, "authMockKey = new(drkey.Key)[:]"),  -- ?
  (1, "tsOpt := &slayers.EndToEndOption{}"),  -- ?
  (1, "for"),  -- ?
  (2, "buf = buf[:cap(buf)]"),  -- ?
  (2, "oob = oob[:cap(oob)]"),  -- ?
  (2, "n, oobn, flags, lastHop, err := conn.ReadMsgUDPAddrPort(buf, oob)"),  -- ?
  (2, "if err != nil"),  -- ?
  (3, "continue"),  -- ?
  (2, "if flags != 0"),  -- ?
  (3, "continue"),  -- ?
  (2, "oob = oob[:oobn]"),  -- ?
  (2, "rxt, err := udp.TimestampFromOOBData(oob)"),  -- ?
  (2, "if err != nil"),  -- ?
  (3, "oob = oob[:0]"),  -- ?
  (3, "rxt = timebase.Now()"),  -- ?
  (2, "buf = buf[:n]"),  -- ?
  (2, "err = parser.DecodeLayers(buf, &decoded)"),  -- ?
  (2, "if err != nil"),  -- ?
  (3, "continue"),  -- ?
  (2, "validType := len(decoded) >= 2 && (decoded[len(decoded)-1] == slayers.LayerTypeSCIONUDP || decoded[len(decoded)-1] == slayers.LayerTypeSCMP)"),  -- ?
  (2, "if !validType"),  -- ?
  (3, "continue"),  -- ?
  (2, "if decoded[len(decoded)-1] == slayers.LayerTypeSCMP"),  -- ?
  (3, "var payload gopacket.Payload"),  -- ?
  (3, "switch scmpLayer.TypeCode.Type()"),  -- ?
  (4, "case slayers.SCMPTypeEchoRequest"),  -- ?
  (5, "payload = gopacket.Payload(scmpLayer.Payload)"),  -- ?
  (5, "scmpLayer.TypeCode = slayers.CreateSCMPTypeCode( slayers.SCMPTypeEchoReply, 0)"),  -- ?
  (4, "case slayers.SCMPTypeTracerouteRequest"),  -- ?
  (5, "payload = gopacket.Payload(scmpLayer.Payload)"),  -- ?
  (5, "scmpLayer.TypeCode = slayers.CreateSCMPTypeCode( slayers.SCMPTypeTracerouteReply, 0)"),  -- ?
  (4, "default"),  -- ?
  (5, "continue"),  -- ?
  (3, "scionLayer.DstIA, scionLayer.SrcIA = scionLayer.SrcIA, scionLayer.DstIA"),  -- ?
  (3, "scionLayer.DstAddrType, scionLayer.SrcAddrType = scionLayer.SrcAddrType, scionLayer.DstAddrType"),  -- ?
  (3, "scionLayer.RawDstAddr, scionLayer.RawSrcAddr = scionLayer.RawSrcAddr, scionLayer.RawDstAddr"),  -- ?
  (3, "scionLayer.Path, err = scionLayer.Path.Reverse()"),  -- ?
  (3, "if err != nil"),  -- ?
  (4, "continue"),  -- ?
  (3, "scionLayer.PathType = scionLayer.Path.Type()"),  -- ?
  (3, "scionLayer.NextHdr = slayers.L4SCMP"),  -- ?
  (3, "err = buffer.Clear()"),  -- ?
  (3, "if err != nil"),  -- ?
  (4, "panic(err)"),  -- ?
  (3, "err = payload.SerializeTo(buffer, options)"),  -- ?
  (3, "if err != nil"),  -- ?
  (4, "panic(err)"),  -- ?
  (3, "buffer.PushLayer(payload.LayerType())"),  -- ?
  (3, "err = scmpLayer.SerializeTo(buffer, options)"),  -- ?
  (3, "if err != nil"),  -- ?
  (4, "panic(err)"),  -- ?
  (3, "buffer.PushLayer(scmpLayer.LayerType())"),  -- ?
  (3, "err = scionLayer.SerializeTo(buffer, options)"),  -- ?
  (3, "if err != nil"),  -- ?
  (4, "panic(err)"),  -- ?
  (3, "buffer.PushLayer(scionLayer.LayerType())"),  -- ?
  (3, "m, err := conn.WriteToUDPAddrPort(buffer.Bytes(), lastHop)"),  -- ?
  (3, "if err != nil || m != len(buffer.Bytes())"),  -- ?
  (4, "continue"),  -- ?
  (3, "_, id, err := udp.ReadTXTimestamp(conn)"),  -- ?
  (3, "for err == nil && int32(id-txid) < 0"),  -- ?
  (4, "_, id, err = udp.ReadTXTimestamp(conn)"),  -- ?
  (3, "if err != nil"),  -- ?
  (4, "txid++"),  -- ?
  (3, "else if id != txid"),  -- ?
  (4, "txid = id + 1"),  -- ?
  (3, "else"),  -- ?
  (4, "txid++"),  -- ?
  (3, "continue"),  -- ?
  (2, "if len(buf) < int(udpLayer.Length)"),  -- ?
  (3, "continue"),  -- ?
  (2, "srcAddr, ok := netip.AddrFromSlice(scionLayer.RawSrcAddr)"),  -- ?
  (2, "if !ok"),  -- ?
  (3, "continue"),  -- ?
  (2, "dstAddr, ok := netip.AddrFromSlice(scionLayer.RawDstAddr)"),  -- ?
  (2, "if !ok"),  -- ?
  (3, "continue"),  -- ?
  (2, "if int(udpLayer.DstPort) != localHostPort"),  -- ?
  (3, "if localConnPort != scion.EndhostPort || udpLayer.DstPort == scion.EndhostPort"),  -- ?
  (4, "continue"),  -- ?
  (3, "dstAddrPort := netip.AddrPortFrom(dstAddr, udpLayer.DstPort)"),  -- ?
  (3, "payload := gopacket.Payload(udpLayer.Payload)"),  -- ?
  (3, "err = buffer.Clear()"),  -- ?
  (3, "if err != nil"),  -- ?
  (4, "panic(err)"),  -- ?
  (3, "err = payload.SerializeTo(buffer, options)"),  -- ?
  (3, "if err != nil"),  -- ?
  (4, "panic(err)"),  -- ?
  (3, "buffer.PushLayer(payload.LayerType())"),  -- ?
  (3, "err = udpLayer.SerializeTo(buffer, options)"),  -- ?
  (3, "if err != nil"),  -- ?
  (4, "panic(err)"),  -- ?
  (3, "buffer.PushLayer(udpLayer.LayerType())"),  -- ?
  (3, "if len(oob) != 0"),  -- ?
  (4, "tsOpt.OptType = scion.OptTypeTimestamp"),  -- ?
  (4, "tsOpt.OptData = oob"),  -- ?
  (4, "tsOpt.OptAlign[0] = 0"),  -- ?
  (4, "tsOpt.OptAlign[1] = 0"),  -- ?
  (4, "tsOpt.OptDataLen = 0"),  -- ?
  (4, "tsOpt.ActualLength = 0"),  -- ?
  (4, "if scionLayer.NextHdr != slayers.End2EndClass"),  -- ?
  (5, "e2eLayer = slayers.EndToEndExtn{}"),  -- ?
  (5, "e2eLayer.NextHdr = slayers.L4UDP"),  -- ?
  (5, "scionLayer.NextHdr = slayers.End2EndClass"),  -- ?
  (4, "e2eLayer.Options = append(e2eLayer.Options, tsOpt)"),  -- ?
  (3, "if scionLayer.NextHdr == slayers.End2EndClass"),  -- ?
  (4, "err = e2eLayer.SerializeTo(buffer, options)"),  -- ?
  (4, "if err != nil"),  -- ?
  (5, "panic(err)"),  -- ?
  (4, "buffer.PushLayer(e2eLayer.LayerType())"),  -- ?
  (3, "err = scionLayer.SerializeTo(buffer, options)"),  -- ?
  (3, "if err != nil"),  -- ?
  (4, "panic(err)"),  -- ?
  (3, "buffer.PushLayer(scionLayer.LayerType())"),  -- ?
  (3, "m, err := conn.WriteToUDPAddrPort(buffer.Bytes(), dstAddrPort)"),  -- ?
  (3, "if err != nil || m != len(buffer.Bytes())"),  -- ?
  (4, "continue"),  -- ?
  (3, "_, id, err := udp.ReadTXTimestamp(conn)"),  -- ?
  (3, "for err == nil && int32(id-txid) < 0"),  -- ?
  (4, "_, id, err = udp.ReadTXTimestamp(conn)"),  -- ?
  (3, "if err != nil"),  -- ?
  (4, "txid++"),  -- ?
  (3, "else if id != txid"),  -- ?
  (4, "txid = id + 1"),  -- ?
  (3, "else"),  -- ?
  (4, "txid++"),  -- ?
  (2, "else"),  -- ?
  (3, "if localHostPort == scion.EndhostPort"),  -- ?
  (4, "continue"),  -- ?
  (3, "var ( authOpt *slayers.EndToEndOption authKey []byte )"),  -- ?
  (3, "authenticated := false"),  -- ?
  (3, "if fetcher != nil && len(decoded) >= 3 && decoded[len(decoded)-2] == slayers.LayerTypeEndToEndExtn"),  -- ?
  (4, "authOpt, err = e2eLayer.FindOption(slayers.OptTypeAuthenticator)"),  -- ?
  (4, "if err == nil"),  -- ?
  (5, "if len(authOpt.OptData) != scion.PacketAuthOptDataLen"),  -- ?
  (6, "continue"),  -- ?
  (5, "spi, algo := scion.PacketAuthOptMetadata(authOpt)"),  -- ?
  (5, "if spi == scion.PacketAuthSPIClient && algo == scion.PacketAuthAlgorithm"),  -- ?
  (6, "hostASKey, err := fetcher.FetchHostASKey(ctx, drkey.HostASMeta{ ProtoId: scion.DRKeyProtocolTS, Validity: rxt, SrcIA: scionLayer.DstIA, DstIA: scionLayer.SrcIA, SrcHost: dstAddr.String()})"),  -- ?
  (6, "if err != nil"),  -- ?
  (6, "else"),  -- ?
  (7, "hostHostKey, err := scion.DeriveHostHostKey(hostASKey, srcAddr.String())"),  -- ?
  (7, "if err != nil"),  -- ?
  (8, "panic(err)"),  -- ?
  (7, "authKey = hostHostKey.Key[:]"),  -- ?
  (7, "if authMockKey != nil"),  -- ?
  (8, "authKey = authMockKey"),  -- ?
  (7, "_, err = spao.ComputeAuthCMAC( spao.MACInput{ Key: authKey, Header: slayers.PacketAuthOption{EndToEndOption: authOpt}, ScionLayer: &scionLayer, PldType: slayers.L4UDP, Pld: buf[len(buf)-int(udpLayer.Length):]}, authBuf, authMAC)"),  -- ?
  (7, "if err != nil"),  -- ?
  (8, "continue"),  -- ?
  (7, "authenticated = subtle.ConstantTimeCompare(scion.PacketAuthOptMAC(authOpt), authMAC) != 0"),  -- ?
  (7, "if !authenticated"),  -- ?
  (8, "continue"),  -- ?
  (3, "var ntpreq ntp.Packet"),  -- ?
  (3, "err = ntp.DecodePacket(&ntpreq, udpLayer.Payload)"),  -- ?
  (3, "if err != nil"),  -- ?
  (4, "continue"),  -- ?
  (3, "ntsAuthenticated := false"),  -- ?
  (3, "var ntsreq nts.Packet"),  -- ?
  (3, "var serverCookie ntske.ServerCookie"),  -- ?
  (3, "if len(udpLayer.Payload) > ntp.PacketLen"),  -- ?
  (4, "err = nts.DecodePacket(&ntsreq, udpLayer.Payload)"),  -- ?
  (4, "if err != nil"),  -- ?
  (5, "continue"),  -- ?
  (4, "cookie, err := ntsreq.FirstCookie()"),  -- ?
  (4, "if err != nil"),  -- ?
  (5, "continue"),  -- ?
  (4, "var encryptedCookie ntske.EncryptedServerCookie"),  -- ?
  (4, "err = encryptedCookie.Decode(cookie)"),  -- ?
  (4, "if err != nil"),  -- ?
  (5, "continue"),  -- ?
  (4, "key, ok := provider.Get(int(encryptedCookie.ID))"),  -- ?
  (4, "if !ok"),  -- ?
  (5, "continue"),  -- ?
  (4, "serverCookie, err = encryptedCookie.Decrypt(key.Value)"),  -- ?
  (4, "if err != nil"),  -- ?
  (5, "continue"),  -- ?
  (4, "err = nts.ProcessRequest(udpLayer.Payload, serverCookie.C2S, &ntsreq)"),  -- ?
  (4, "if err != nil"),  -- ?
  (5, "continue"),  -- ?
  (4, "ntsAuthenticated = true"),  -- ?
  (3, "err = ntp.ValidateRequest(&ntpreq, udpLayer.SrcPort)"),  -- ?
  (3, "if err != nil"),  -- ?
  (4, "continue"),  -- ?
  (3, "clientID := scionLayer.SrcIA.String() + \",\" + srcAddr.String()"),  -- ?
  (3, "var txt0 time.Time"),  -- ?
  (3, "var ntpresp ntp.Packet"),  -- ?
  (3, "handleRequest(clientID, &ntpreq, &rxt, &txt0, &ntpresp)"),  -- ?
  (3, "scionLayer.TrafficClass = dscp << 2"),  -- ?
  (3, "scionLayer.DstIA, scionLayer.SrcIA = scionLayer.SrcIA, scionLayer.DstIA"),  -- ?
  (3, "scionLayer.DstAddrType, scionLayer.SrcAddrType = scionLayer.SrcAddrType, scionLayer.DstAddrType"),  -- ?
  (3, "scionLayer.RawDstAddr, scionLayer.RawSrcAddr = scionLayer.RawSrcAddr, scionLayer.RawDstAddr"),  -- ?
  (3, "scionLayer.Path, err = scionLayer.Path.Reverse()"),  -- ?
  (3, "if err != nil"),  -- ?
  (4, "continue"),  -- ?
  (3, "scionLayer.PathType = scionLayer.Path.Type()"),  -- ?
  (3, "scionLayer.NextHdr = slayers.L4UDP"),  -- ?
  (3, "udpLayer.DstPort, udpLayer.SrcPort = udpLayer.SrcPort, udpLayer.DstPort"),  -- ?
  (3, "ntp.EncodePacket(&udpLayer.Payload, &ntpresp)"),  -- ?
  (3, "if ntsAuthenticated"),  -- ?
  (4, "var cookies [][]byte"),  -- ?
  (4, "key := provider.Current()"),  -- ?
  (4, "addedCookie := false"),  -- ?
  (4, "for range len(ntsreq.Cookies) + len(ntsreq.CookiePlaceholders)"),  -- ?
  (5, "encryptedCookie, err := serverCookie.EncryptWithNonce(key.Value, key.ID)"),  -- ?
  (5, "if err != nil"),  -- ?
  (6, "continue"),  -- ?
  (5, "cookie := encryptedCookie.Encode()"),  -- ?
  (5, "cookies = append(cookies, cookie)"),  -- ?
  (5, "addedCookie = true"),  -- ?
  (4, "if !addedCookie"),  -- ?
  (5, "continue"),  -- ?
  (4, "ntsresp := nts.NewResponsePacket(cookies, serverCookie.S2C, ntsreq.UniqueID.ID)"),  -- ?
  (4, "nts.EncodePacket(&udpLayer.Payload, &ntsresp)"),  -- ?
  (3, "payload := gopacket.Payload(udpLayer.Payload)"),  -- ?
  (3, "err = buffer.Clear()"),  -- ?
  (3, "if err != nil"),  -- ?
  (4, "panic(err)"),  -- ?
  (3, "err = payload.SerializeTo(buffer, options)"),  -- ?
  (3, "if err != nil"),  -- ?
  (4, "panic(err)"),  -- ?
  (3, "buffer.PushLayer(payload.LayerType())"),  -- ?
  (3, "err = udpLayer.SerializeTo(buffer, options)"),  -- ?
  (3, "if err != nil"),  -- ?
  (4, "panic(err)"),  -- ?
  (3, "buffer.PushLayer(udpLayer.LayerType())"),  -- ?
  (3, "if authenticated"),  -- ?
  (4, "scion.PreparePacketAuthOpt(authOpt, scion.PacketAuthSPIServer, scion.PacketAuthAlgorithm)"),  -- ?
  (4, "_, err = spao.ComputeAuthCMAC( spao.MACInput{ Key: authKey, Header: slayers.PacketAuthOption{EndToEndOption: authOpt}, ScionLayer: &scionLayer, PldType: scionLayer.NextHdr, Pld: buffer.Bytes()}, authBuf, scion.PacketAuthOptMAC(authOpt))"),  -- ?
  (4, "if err != nil"),  -- ?
  (5, "panic(err)"),  -- ?
  (4, "e2eExtn := slayers.EndToEndExtn{}"),  -- ?
  (4, "e2eExtn.NextHdr = scionLayer.NextHdr"),  -- ?
  (4, "e2eExtn.Options = []*slayers.EndToEndOption{authOpt}"),  -- ?
  (4, "err = e2eExtn.SerializeTo(buffer, options)"),  -- ?
  (4, "if err != nil"),  -- ?
  (5, "panic(err)"),  -- ?
  (4, "buffer.PushLayer(e2eExtn.LayerType())"),  -- ?
  (4, "scionLayer.NextHdr = slayers.End2EndClass"),  -- ?
  (3, "err = scionLayer.SerializeTo(buffer, options)"),  -- ?
  (3, "if err != nil"),  -- ?
  (4, "panic(err)"),  -- ?
  (3, "buffer.PushLayer(scionLayer.LayerType())"),  -- ?
  (3, "n, err = conn.WriteToUDPAddrPort(buffer.Bytes(), lastHop)"),  -- ?
  (3, "if err != nil || n != len(buffer.Bytes())"),  -- ?
  (4, "continue"),  -- ?
  (3, "txt1, id, err := udp.ReadTXTimestamp(conn)"),  -- ?
  (3, "for err == nil && int32(id-txid) < 0"),  -- ?
  (4, "txt1, id, err = udp.ReadTXTimestamp(conn)"),  -- ?
  (3, "if err != nil"),  -- ?
  (4, "txt1 = txt0"),  -- ?
  (4, "txid++"),  -- ?
  (3, "else if id != txid"),  -- ?
  (4, "txt1 = txt0"),  -- ?
  (4, "txid = id + 1"),  -- ?
  (3, "else"),  -- ?
  (4, "txid++"),  -- ?
  (3, "updateTXTimestamp(clientID, rxt, &txt1)")  -- ?
  ]

end ScionTime.Model.Skel
