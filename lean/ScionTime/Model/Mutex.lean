/-
  Mutual exclusion ⇒ linearizability, for the shape of code the lock-discipline facts describe:
  every operation on the shared state is `mu.Lock(); defer mu.Unlock(); body`, the body being an
  arbitrary finite sequence of reads/writes of the shared state (micro-steps).
-/
namespace ScionTime.Mutex

variable {σ ι : Type}

/-- the micro-steps (reads/writes of the shared state) of one critical section -/
abbrev Body (σ : Type) := List (σ → σ)

def runOp (b : Body σ) (s : σ) : σ := b.foldl (fun s f => f s) s

/-- operations are labels `ι` (e.g. `Server.Op`); `sem` gives the critical section of each -/
structure Thread (σ ι : Type) where
  todo : List ι               -- operations still to be started, in program order
  cur : Option (Body σ)       -- remaining micro-steps of the operation in progress (lock held)

structure Sys (σ ι : Type) where
  shared : σ
  holder : Option Nat
  threads : List (Thread σ ι)
  /-- ghost: (thread, operation) in the order the lock was acquired -/
  log : List (Nat × ι)

/-- one scheduler choice: thread `i` performs its next micro-step if it is enabled -/
def step (sem : ι → Body σ) (s : Sys σ ι) (i : Nat) : Option (Sys σ ι) :=
  match s.threads[i]? with
  | none => none
  | some th =>
    match th.cur with
    | none =>
      match th.todo, s.holder with
      | op :: rest, none =>
        some { s with holder := some i, threads := s.threads.set i { todo := rest, cur := some (sem op) },
                      log := s.log ++ [(i, op)] }
      | _, _ => none                      -- nothing to do, or blocked in Lock()
    | some [] =>
      if s.holder = some i then
        some { s with holder := none, threads := s.threads.set i { th with cur := none } }
      else none
    | some (f :: fs) =>
      if s.holder = some i then
        some { s with shared := f s.shared, threads := s.threads.set i { th with cur := some fs } }
      else none

/-- a schedule: the enabled choices are taken, the others skipped (a disabled thread simply is
    not scheduled) -/
def run (sem : ι → Body σ) (s : Sys σ ι) : List Nat → Sys σ ι
  | [] => s
  | i :: is => match step sem s i with
    | some s' => run sem s' is
    | none => run sem s is

def seqResult (sem : ι → Body σ) (init : σ) (log : List (Nat × ι)) : σ :=
  log.foldl (fun s e => runOp (sem e.2) s) init

/-- the system at start: nobody holds the lock, every thread has its whole program ahead -/
def start (init : σ) (progs : List (List ι)) : Sys σ ι :=
  { shared := init, holder := none, threads := progs.map (fun p => { todo := p, cur := none }), log := [] }

end ScionTime.Mutex
