/-
  Model/SysClock.lean — the bookkeeping of driver/clocks/sysclk_linux.go (`SystemClock`):
  the fields `epoch` and `adjustment{duration, afterFreq}` and the methods `Epoch`, `Step`,
  `Adjust`, `Sleep` plus the expiry goroutine `Adjust` starts, statement by statement.

  * The three syscall wrappers `setOffset`, `setFrequency`, `sleep` are NOT modelled: a call
    is recorded as an `Action` with its argument (what the kernel does with it is outside
    the property).  `go func(...)` is the action `spawn id duration`: the goroutine's first
    statement is `sleep(log, adj.duration)`; the rest of its body is `expire id`, an op of its
    own because the scheduler decides when it runs relative to the other methods (all of
    them hold `c.mu`, so the interleaving is at method granularity).
  * `c.adjustment` is a pointer; the goroutine compares pointers (`adj == adj.clock.adjustment`).
    The model gives every `&adjustment{…}` a fresh `id` (`nextId`, a ghost counter) and
    compares ids.  `pending` (ghost) lists the goroutines that have been started and have
    not run their tail yet.
  * `c.adjustment` is set by `Adjust`, cleared by `Step` and at the top of `Adjust`, and it is
    NOT cleared when the slew expires — so a `Step` long after the last slew still restores
    `afterFreq` first.  Mirrored as is.
  * `frequency + offset.Seconds()/duration.Seconds()` is computed on the exact software double
    `F64` (`durationSeconds`, `div`, `add`).
  * Panics happen after some statements have run: `Step` panics with "epoch overflow" AFTER
    `setFrequency`/`setOffset` were called and `c.adjustment` was cleared; `Adjust` panics
    with "invalid duration value" AFTER `c.adjustment` was cleared.  `Outcome.panic` therefore
    carries the state and the actions performed so far (the deferred `Unlock` runs).

  Tie to Go: harness/cmd/c19clk (the real `clocks.SystemClock` in child processes; actions read
  from the debug log records of the wrappers), driver Driver/C19.lean (`sc.*` ops).
-/
import ScionTime.Model.F64
namespace ScionTime.SysClock
open ScionTime.F64

def second : Int := 1000000000
/-- `math.MaxUint64` -/
def maxU64 : Nat := 18446744073709551615

/-- `type adjustment struct { clock; duration; afterFreq }` (+ ghost identity of the pointer) -/
structure Adj where
  id : Nat
  duration : Int
  afterFreq : F64
deriving DecidableEq, Repr

structure State where
  epoch : Nat                 -- uint64
  adjustment : Option Adj     -- *adjustment
  nextId : Nat                -- ghost: number of `&adjustment{}` allocated so far
  pending : List Adj          -- ghost: started expiry goroutines whose tail has not run
deriving DecidableEq, Repr

/-- `NewSystemClock` (drift is the concern of Model/FreqDrift.lean) -/
def init : State := { epoch := 0, adjustment := none, nextId := 0, pending := [] }

inductive Action where
  | setOffset (offset : Int)          -- `setOffset(c.log, offset)`
  | setFrequency (f : F64)            -- `setFrequency(c.log, f)`
  | sleepLog (d : Int)                -- the debug record "sleeping" `Sleep` writes before it validates `d`
  | sleep (d : Int)                   -- `sleep(c.log, d)` in `Sleep`
  | spawn (id : Nat) (duration : Int) -- `go func(log, adj) { sleep(log, adj.duration); … }`
deriving DecidableEq, Repr

inductive PanicKind where
  | epochOverflow     -- panic("epoch overflow")
  | invalidDuration   -- panic("invalid duration value")
deriving DecidableEq, Repr

inductive Outcome where
  | ok (s : State) (acts : List Action)
  | panic (k : PanicKind) (s : State) (acts : List Action)
deriving DecidableEq, Repr

def Outcome.state : Outcome → State
  | .ok s _ => s
  | .panic _ s _ => s

def Outcome.acts : Outcome → List Action
  | .ok _ a => a
  | .panic _ _ a => a

def Outcome.isOk : Outcome → Bool
  | .ok _ _ => true
  | .panic _ _ _ => false

/-- `func (c *SystemClock) Epoch() uint64` -/
def epoch (c : State) : Nat := c.epoch

/-- The first statement of `Step`:
    `if c.adjustment != nil { setFrequency(c.log, c.adjustment.afterFreq); c.adjustment = nil }` -/
def cancelActs (c : State) : List Action :=
  match c.adjustment with
  | some a => [.setFrequency a.afterFreq]
  | none => []

/-- `func (c *SystemClock) Step(offset time.Duration)` -/
def step (c : State) (offset : Int) : Outcome :=
  let acts := cancelActs c
  let c := { c with adjustment := none }
  let acts := acts ++ [.setOffset offset]
  if c.epoch = maxU64 then .panic .epochOverflow c acts
  else .ok { c with epoch := c.epoch + 1 } acts

/-- `duration = duration / time.Second * time.Second; if duration == 0 { duration = time.Second }`
    (for `duration ≥ 0`) -/
def normDuration (duration : Int) : Int :=
  let d := Int.tdiv duration second * second
  if d = 0 then second else d

/-- The frequency `Adjust` sets while the slew lasts:
    `frequency + offset.Seconds()/duration.Seconds()` with the normalised duration. -/
def slewFrequency (offset duration : Int) (frequency : F64) : F64 :=
  add frequency (div (durationSeconds offset) (durationSeconds duration))

/-- `func (c *SystemClock) Adjust(offset, duration time.Duration, frequency float64)` -/
def adjust (c : State) (offset duration : Int) (frequency : F64) : Outcome :=
  let c := { c with adjustment := none }
  if duration < 0 then .panic .invalidDuration c []
  else
    let d := normDuration duration
    let a : Adj := { id := c.nextId, duration := d, afterFreq := frequency }
    .ok { c with adjustment := some a, nextId := c.nextId + 1, pending := c.pending ++ [a] }
      [.setFrequency (slewFrequency offset d frequency), .spawn a.id d]

/-- The tail of the goroutine started by `Adjust` for the adjustment `id`, after its sleep:
    `if adj == adj.clock.adjustment { setFrequency(log, adj.afterFreq) }`.
    `none`: there is no such goroutine (not an execution of the program). -/
def expire (c : State) (id : Nat) : Option Outcome :=
  match c.pending.find? (fun a => a.id = id) with
  | none => none
  | some a =>
    let c' := { c with pending := c.pending.filter (fun b => b.id ≠ id) }
    match c.adjustment with
    | some cur => if cur.id = a.id then some (.ok c' [.setFrequency a.afterFreq]) else some (.ok c' [])
    | none => some (.ok c' [])

/-- `func (c *SystemClock) Sleep(duration time.Duration)` -/
def sleep (c : State) (duration : Int) : Outcome :=
  if duration < 0 then .panic .invalidDuration c [.sleepLog duration]
  else .ok c [.sleepLog duration, .sleep duration]

/-! ### the Go statements transcribed above (top-level statements of each method, whitespace
normalised); Props/C19Clock.lean pins them to what harness/extract/x_c19.go reads from
driver/clocks/sysclk_linux.go on every run -/

def epochSource : List String := ["c.mu.Lock()", "defer c.mu.Unlock()", "return c.epoch"]

def stepSource : List String :=
  ["c.mu.Lock()", "defer c.mu.Unlock()",
   "if c.adjustment != nil { setFrequency(c.log, c.adjustment.afterFreq) c.adjustment = nil }",
   "setOffset(c.log, offset)",
   "if c.epoch == math.MaxUint64 { panic(\"epoch overflow\") }",
   "c.epoch++"]

def adjustSource : List String :=
  ["c.mu.Lock()", "defer c.mu.Unlock()",
   "if c.adjustment != nil { c.adjustment = nil }",
   "if duration < 0 { panic(\"invalid duration value\") }",
   "duration = duration / time.Second * time.Second",
   "if duration == 0 { duration = time.Second }",
   "setFrequency(c.log, frequency+offset.Seconds()/duration.Seconds())",
   "c.adjustment = &adjustment{ clock: c, duration: duration, afterFreq: frequency, }",
   "go func(log *slog.Logger, adj *adjustment) { sleep(log, adj.duration) adj.clock.mu.Lock() defer adj.clock.mu.Unlock() if adj == adj.clock.adjustment { setFrequency(log, adj.afterFreq) } }(c.log, c.adjustment)"]

def goroutineSource : List String :=
  ["sleep(log, adj.duration)", "adj.clock.mu.Lock()", "defer adj.clock.mu.Unlock()",
   "if adj == adj.clock.adjustment { setFrequency(log, adj.afterFreq) }", "args: c.log, c.adjustment"]

def sleepSource : List String :=
  ["c.log.LogAttrs(context.Background(), slog.LevelDebug, \"sleeping\", slog.Duration(\"duration\", duration))",
   "if duration < 0 { panic(\"invalid duration value\") }",
   "sleep(c.log, duration)"]

/-! ### histories of method calls -/

inductive Op where
  | step (offset : Int)
  | adjust (offset duration : Int) (frequency : F64)
  | expire (id : Nat)
  | sleep (duration : Int)
deriving DecidableEq, Repr

/-- One method call / goroutine tail.  An `expire` of a goroutine that does not exist leaves the
    state alone (`run` is total; theorems about `expire` state the guard). -/
def apply (c : State) : Op → Outcome
  | .step o => step c o
  | .adjust o d f => adjust c o d f
  | .expire id => (expire c id).getD (.ok c [])
  | .sleep d => sleep c d

/-- State after a history (a panicking call leaves the state it had reached, as the deferred
    unlock does). -/
def final (c : State) : List Op → State
  | [] => c
  | x :: xs => final (apply c x).state xs

/-- 1 for a `Step` call that returned normally, 0 for everything else -/
def stepCount : Op → Outcome → Nat
  | .step _, .ok _ _ => 1
  | _, _ => 0

/-- number of `Step` calls of a history that returned normally when run from `c` -/
def okSteps (c : State) : List Op → Nat
  | [] => 0
  | x :: xs => stepCount x (apply c x) + okSteps (apply c x).state xs

end ScionTime.SysClock
