/-
  Model/DrkeyFetch.lean — the DRKey fetch chain behind SCION packet authentication
  (net/scion/daemon.go NewDaemonConnector; net/scion/drkey.go FetchHostASKey, FetchHostHostKey,
   DeriveHostHostKey; net/scion/fetcher.go Fetcher; the call sites in
   core/server/server_scion.go and core/client/client_scion.go).  Core Lean only.

  Time is an `Int` count of nanoseconds. Keys are byte lists. The SCION daemon is *not*
  modelled: every call that reaches it gets an answer supplied from outside (`Option HostASKey`,
  `none` = an error), so theorems quantify over all daemon behaviours, honest or not.
  The host-host derivation (scionproto's `generic.Deriver.DeriveHostHost`, AES-CBC-MAC) is an
  oracle parameter.
-/
namespace ScionTime.Drkey

abbrev Bytes := List Nat

/-- `scion.DRKeyProtocolTS` (pinned in Props/C13Keys). -/
def protocolTS : Nat := 123
/-- the mock keys' half validity: `6 * time.Hour` in nanoseconds (pinned). -/
def mockHalfValidityNs : Int := 21600000000000

/-- Identity of a level-2 (host-AS) key: protocol, the AS and host on the fast side (for the
    time service: the server's AS and the address the request was sent to), the AS on the slow
    side (the client's). `drkey.HostASMeta` without `Validity` / the identity fields of
    `drkey.HostASKey`. -/
structure KeyId where
  proto : Nat
  srcIA : Nat
  dstIA : Nat
  srcHost : String
deriving DecidableEq, Repr

/-- `drkey.Epoch` (`cppki.Validity`): both ends inclusive. -/
structure Epoch where
  nb : Int
  na : Int
deriving DecidableEq, Repr

/-- `cppki.Validity.Contains`: `!t.Before(NotBefore) && !t.After(NotAfter)`. -/
def Epoch.contains (e : Epoch) (t : Int) : Bool := decide (e.nb ≤ t) && decide (t ≤ e.na)

/-- `drkey.HostASKey` -/
structure HostASKey where
  id : KeyId
  epoch : Epoch
  key : Bytes
deriving DecidableEq, Repr

/-- `drkey.HostASMeta` -/
structure HostASMeta where
  id : KeyId
  validity : Int
deriving DecidableEq, Repr

/-! ### Connector (daemon.go, drkey.go) -/

/-- What `scion.NewDaemonConnector` returned: `nil` (no daemon address, or the connection
    could not be set up), or the daemon's own connector. There is no third possibility: the
    function returns the value of `daemon.Service.Connect` as it is — no wrapper, no state of
    its own (pinned by `C13_pin_daemon_connector`). -/
inductive Connector where
  | nil
  | daemon
deriving DecidableEq, Repr

/-- `scion.FetchHostASKey(ctx, dc, meta)`: `errNoDaemonConnector` for a nil connector, else
    `dc.DRKeyGetHostASKey(ctx, meta)` — the daemon's answer `ans` to exactly this `meta`.
    Second component: whether the daemon was asked. -/
def connectorFetch (dc : Connector) (ans : Option HostASKey) : Option HostASKey × Bool :=
  match dc with
  | .nil => (none, false)
  | .daemon => (ans, true)

/-! ### Fetcher (fetcher.go) -/

/-- `Fetcher.haks : map[addr.IA]drkey.HostASKey` as an association list (first match wins;
    `insert` removes older entries of the same key, so there is at most one). -/
structure Fetcher where
  haks : List (Nat × HostASKey) := []
deriving DecidableEq, Repr

def Fetcher.lookup (f : Fetcher) (ia : Nat) : Option HostASKey :=
  (f.haks.find? (fun e => e.1 == ia)).map (·.2)

def Fetcher.insert (f : Fetcher) (ia : Nat) (k : HostASKey) : Fetcher :=
  ⟨(ia, k) :: f.haks.filter (fun e => e.1 != ia)⟩

/-- process-wide configuration of the fetch chain -/
structure Cfg where
  /-- `USE_MOCK_KEYS` was set when the process started -/
  mock : Bool := false
  dc : Connector := .daemon
deriving DecidableEq, Repr

/-- metric increments of one call: keysInserted, keysExpired, keysReplaced -/
structure Counts where
  inserted : Nat := 0
  expired : Nat := 0
  replaced : Nat := 0
deriving DecidableEq, Repr

/-- Result of one `Fetcher.FetchHostASKey` call. -/
structure FetchRes where
  fetcher : Fetcher
  /-- `(hak, nil)` or `(_, err)` -/
  out : Option HostASKey
  /-- the daemon was asked (with exactly the call's meta) -/
  asked : Bool
  counts : Counts := {}
deriving DecidableEq, Repr

/-- the test on the cached entry: what makes `FetchHostASKey` go back to the source -/
def stale (hit : Option HostASKey) (m : HostASMeta) : Bool :=
  match hit with
  | none => true
  | some k => !k.epoch.contains m.validity || k.id.proto != m.id.proto || k.id.srcIA != m.id.srcIA ||
              k.id.dstIA != m.id.dstIA || k.id.srcHost != m.id.srcHost

/-- `(*Fetcher).FetchHostASKey(ctx, meta)`. `now` is `time.Now()` (read only on the mock path),
    `ans` the daemon's answer should it be asked.
    As in the code: the cache is indexed by `meta.DstIA`; a cached key is used iff its epoch
    contains `meta.Validity` and protocol, both ASes and the host equal the meta's; otherwise a
    key is obtained (mock: identity of the meta, epoch now ∓ 6 h, zero key; else from the
    connector) and — if that succeeded — stored under **the returned key's** `DstIA` and
    returned **without looking at its epoch or identity**; an error stores nothing. -/
def Fetcher.fetchHostAS (cfg : Cfg) (f : Fetcher) (m : HostASMeta) (now : Int) (ans : Option HostASKey) : FetchRes :=
  let hit := f.lookup m.id.dstIA
  if !stale hit m then ⟨f, hit, false, {}⟩
  else
    let (got, asked) : Option HostASKey × Bool :=
      if cfg.mock then
        (some ⟨m.id, ⟨now - mockHalfValidityNs, now + mockHalfValidityNs⟩, List.replicate 16 0⟩, false)
      else connectorFetch cfg.dc ans
    match got with
    | none => ⟨f, none, asked, {}⟩
    | some k =>
      let cnt : Counts :=
        match hit with
        | none => { inserted := 1 }
        | some h => { expired := if !h.epoch.contains m.validity then 1 else 0, replaced := 1 }
      ⟨f.insert k.id.dstIA k, some k, asked, cnt⟩

/-! ### Level 3 (host-host) -/

/-- `drkey.HostHostMeta` identity: level-2 identity plus the slow-side host. -/
structure HHId where
  l2 : KeyId
  dstHost : String
deriving DecidableEq, Repr

structure HostHostKey where
  id : HHId
  epoch : Epoch
  key : Bytes
deriving DecidableEq, Repr

/-- `scion.DeriveHostHostKey(hostASKey, dstHost)`: the derivation is a parameter (`none` = the
    deriver's error, e.g. an unparsable host string); identity and epoch are copied. -/
def deriveHostHost (derive : HostASKey → String → Option Bytes) (k : HostASKey) (dstHost : String) :
    Option HostHostKey :=
  (derive k dstHost).map fun b => ⟨⟨k.id, dstHost⟩, k.epoch, b⟩

/-- `(*Fetcher).FetchHostHostKey(ctx, meta)` — what the *client* uses: no cache at all. Mock:
    identity of the meta, epoch now ∓ 6 h, zero key; else the connector's answer (`none` for a
    nil connector). -/
def fetchHostHost (cfg : Cfg) (id : HHId) (now : Int) (ans : Option HostHostKey) : Option HostHostKey × Bool :=
  if cfg.mock then (some ⟨id, ⟨now - mockHalfValidityNs, now + mockHalfValidityNs⟩, List.replicate 16 0⟩, false)
  else match cfg.dc with
    | .nil => (none, false)
    | .daemon => (ans, true)

/-! ### The call sites -/

/-- What the listener knows about an authenticated request when it asks for the key
    (server_scion.go): the packet's ASes and host addresses as text, and the receive time. -/
structure ReqInfo where
  srcIA : Nat        -- scionLayer.SrcIA: the client's AS
  dstIA : Nat        -- scionLayer.DstIA: the addressed (server's) AS
  srcHost : String   -- srcAddr.String(): the client host
  dstHost : String   -- dstAddr.String(): the addressed host
  rxt : Int          -- receive timestamp of the datagram
deriving DecidableEq, Repr

/-- the meta the listener builds: protocol TS, validity = receive time, fast side = the
    addressed AS and host, slow side = the client's AS -/
def listenerMeta (r : ReqInfo) : HostASMeta :=
  ⟨⟨protocolTS, r.dstIA, r.srcIA, r.dstHost⟩, r.rxt⟩

/-- Outcome of the listener's key step. -/
inductive KeyUse where
  /-- fetch error: the request is processed without authentication (C13_no_key_served_unauthenticated) -/
  | noKey
  /-- `DeriveHostHostKey` failed: `panic(err)` in the listener -/
  | derivePanic
  /-- the MAC is verified (and the reply authenticated) under this key -/
  | key (b : Bytes)
deriving DecidableEq, Repr

/-- The listener's key step: `fetcher.FetchHostASKey(listenerMeta)`, then
    `DeriveHostHostKey(hostASKey, srcAddr.String())`; with mock keys the all-zero
    `authMockKey` replaces the derived key. -/
def listenerKey (cfg : Cfg) (derive : HostASKey → String → Option Bytes) (f : Fetcher) (r : ReqInfo)
    (now : Int) (ans : Option HostASKey) : Fetcher × KeyUse :=
  let res := f.fetchHostAS cfg (listenerMeta r) now ans
  match res.out with
  | none => (res.fetcher, .noKey)
  | some k =>
    match deriveHostHost derive k r.srcHost with
    | none => (res.fetcher, .derivePanic)
    | some hh => (res.fetcher, .key (if cfg.mock then List.replicate 16 0 else hh.key))

/-- The client's identity for the level-3 key (client_scion.go): protocol TS, validity =
    transmit time, fast side = the *server's* AS and host, slow side = its own. -/
def clientHHId (remoteIA localIA : Nat) (remoteHost localHost : String) : HHId :=
  ⟨⟨protocolTS, remoteIA, localIA, remoteHost⟩, localHost⟩

/-! ### Histories -/

/-- one `FetchHostASKey` call with everything the environment contributes -/
structure Call where
  m : HostASMeta
  now : Int
  ans : Option HostASKey
deriving DecidableEq, Repr

/-- run a history of calls on one fetcher; the results in order -/
def runCalls (cfg : Cfg) : Fetcher → List Call → Fetcher × List FetchRes
  | f, [] => (f, [])
  | f, c :: cs =>
    let r := f.fetchHostAS cfg c.m c.now c.ans
    let (f', rs) := runCalls cfg r.fetcher cs
    (f', r :: rs)

end ScionTime.Drkey
