/-
  Model of the NTP client's per-exchange state machine:
    core/client/client_ip.go     IPClient.measureClockOffsetIP
    core/client/client_scion.go  SCIONClient.measureClockOffsetSCION
    core/client/client.go        MeasureClockOffsetIP (the up-to-3-attempts wrapper)

  One exchange = one fresh socket, one request, then the receive loop over the datagrams
  (and read errors) the socket delivers, until a response is accepted or an error is
  returned.  What the kernel, gopacket/slayers, NTS (AEAD) and DRKey/SPAO (CMAC) produce are
  *inputs*: the model is a function of the facts the code branches on.

  Times are `Int` nanoseconds (Time64.lean), durations Go int64 (NtpMath.lean).
-/
import ScionTime.Model.Time64
import ScionTime.Model.NtpMath
namespace ScionTime.ClientNtp
open ScionTime.Time64 ScionTime.NtpMath

/-- `IPClient.prev` / `SCIONClient.prev` (the SCION client's `prev.path` is only reported to
    the caller, never read by the exchange). `reference = ""` initially / after
    `ResetInterleavedMode`. -/
structure Prev where
  reference : String
  interleaved : Bool
  cTx : T64
  cRx : T64
  sRx : T64
deriving Repr, DecidableEq

def zero64 : T64 := ⟨0, 0⟩
def Prev.init : Prev := ⟨"", false, zero64, zero64, zero64⟩

inductive Transport where
  | ip | scion
deriving Repr, DecidableEq

/-- client configuration as far as one exchange reads it -/
structure Cfg where
  transport : Transport
  /-- `InterleavedMode` -/
  interleavedMode : Bool
  /-- IP: `Auth.Enabled`; SCION: `Auth.NTSEnabled` -/
  nts : Bool
  /-- `ctx.Deadline()` is set (it is also the socket deadline) -/
  deadlineSet : Bool

/-- the outstanding request: `interleavedReq`, the three timestamp fields of `ntpreq`
    and `cTxTime0` (the reading every wire timestamp of this exchange is decoded against) -/
structure Req where
  interleaved : Bool
  origin : T64
  rx : T64
  tx : T64
  cTx0 : Int
deriving Repr, DecidableEq

/-- `3*time.Second` -/
def window : Int := 3000000000

/-- `cTxTime0.Sub(ntp.TimeFromTime64(c.prev.cTxTime, cTxTime0)) <= 3*time.Second`
    (client_ip.go) resp. `< 3*time.Second` (client_scion.go) -/
def windowOk (tr : Transport) (now : Int) (prevCTx : T64) : Bool :=
  let d := (sub64 now (toTime prevCTx now)).toInt
  match tr with
  | .ip => decide (d ≤ window)
  | .scion => decide (d < window)

/-- request construction; `reference` = `remoteAddr.String()` (IP) resp. `IA,host` (SCION),
    `now` = `cTxTime0 := timebase.Now()` -/
def mkRequest (cfg : Cfg) (prev : Prev) (reference : String) (now : Int) : Req :=
  if cfg.interleavedMode && reference == prev.reference && windowOk cfg.transport now prev.cTx then
    { interleaved := true, origin := prev.sRx, rx := prev.cRx, tx := prev.cTx, cTx0 := now }
  else
    { interleaved := false, origin := zero64, rx := zero64, tx := ofTime now, cTx0 := now }

/-- first byte of every request: `SetVersion(ntp.VersionMax); SetMode(ntp.ModeClient)` on a zero packet -/
def requestLVM : Nat := 4 * 8 + 3

/-- `netip.AddrFromSlice(localAddr.IP)` succeeds iff the slice has 4 or 16 bytes. -/
def localAddrOk (iplen : Nat) : Bool := iplen == 4 || iplen == 16

/-- What the two per-exchange functions do before anything is sent, as a function of the
    local address: `none` = go on, `some r` = return `r` (`Attempt.ok 0 0 _` is Go's
    `(time.Time{}, 0, nil)`). `entryOld` is the code before the `fix:` commit for finding F13:
    the named result `err` is still nil at that point. -/
inductive EntryResult where
  | proceed
  | errAddr
  | successZeroOld
deriving Repr, DecidableEq

def entry (iplen : Nat) : EntryResult := if localAddrOk iplen then .proceed else .errAddr
def entryOld (iplen : Nat) : EntryResult := if localAddrOk iplen then .proceed else .successZeroOld

/-- the fields of a decoded `ntp.Packet` the client reads -/
structure NtpPkt where
  lvm : Nat
  stratum : Nat
  origin : T64
  rx : T64
  tx : T64
deriving Repr, DecidableEq

/-- UDP payload as the NTP/NTS stage sees it: its length, the header fields at their fixed
    offsets (meaningful when `len ≥ 48`), and the verdicts of the NTS library calls
    (oracle inputs, consulted only when NTS is enabled): `nts.DecodePacket` succeeded,
    unique identifier equals the request's, AEAD `Open` under the S2C key succeeded. -/
structure Payload where
  len : Nat
  pkt : NtpPkt
  ntsDecodeOk : Bool
  ntsUidEq : Bool
  ntsOpenOk : Bool
deriving Repr, DecidableEq

/-- errors an exchange can return, by the branch that produced them -/
inductive ErrKind where
  | read          -- ReadMsgUDPAddrPort failed (deadline)
  | flags         -- errUnexpectedPacketFlags
  | source        -- errUnexpectedPacketSource (IP)
  | layers        -- gopacket DecodeLayers failed (SCION)
  | unexpected    -- errUnexpectedPacket
  | auth          -- errInvalidPacketAuthenticator (SCION)
  | size          -- ntp.DecodePacket: errUnexpectedPacketSize
  | ntsDecode     -- nts.DecodePacket failed
  | ntsProcess    -- nts.ProcessResponse failed (unique id or AEAD)
  | response      -- ntp.errUnexpectedResponse (metadata, or t2 before t1)
  | other         -- anything returned before the receive loop (listen, deadline, key exchange, write)
deriving Repr, DecidableEq

/-- `(t0,t1,t2,t3)` of an accepted response, `interleavedResp`, the receive time that
    becomes `timestamp`/`prev.cRxTime`, and the response's receive field (→ `prev.sRxTime`) -/
structure Accepted where
  il : Bool
  t0 : Int
  t1 : Int
  t2 : Int
  t3 : Int
  cRx : Int
  sRx64 : T64
deriving Repr, DecidableEq

/-- what one loop iteration does with one datagram -/
inductive Step where
  | skip (e : ErrKind)    -- "retry once, else return e"
  | fatal (e : ErrKind)   -- return e at once
  | panic                 -- ValidateResponseTimestamps: t3 before t0 / malformed authenticator option
  | accept (a : Accepted)
deriving Repr, DecidableEq

/-- From `ntp.DecodePacket` to `ValidateResponseTimestamps` — identical text in both clients. -/
def ntpStage (cfg : Cfg) (prev : Prev) (req : Req) (cTx1 cRx : Int) (p : Payload) : Step :=
  if p.len < 48 then .skip .size
  else if cfg.nts && !p.ntsDecodeOk then .skip .ntsDecode
  else if cfg.nts && !(p.ntsUidEq && p.ntsOpenOk) then .skip .ntsProcess
  else
    let il := req.interleaved && p.pkt.origin == req.rx
    if !il && p.pkt.origin != req.tx then .skip .unexpected
    else if !validMetadata p.pkt.lvm p.pkt.stratum then .fatal .response
    else
      let sRx := toTime p.pkt.rx req.cTx0
      let sTx := toTime p.pkt.tx req.cTx0
      let t0 := if il then toTime prev.cTx req.cTx0 else cTx1
      let t1 := if il then toTime prev.sRx req.cTx0 else sRx
      let t2 := sTx
      let t3 := if il then toTime prev.cRx req.cTx0 else cRx
      match validateTimestamps t0 t1 t2 t3 with
      | .panic => .panic
      | .errResponse => .fatal .response
      | .ok => .accept ⟨il, t0, t1, t2, t3, cRx, p.pkt.rx⟩

/-- IP datagram: source address after `Unmap()` (an IPv4 address and its IPv4-mapped IPv6 form
    are the same number here; ports are *not* compared by the code) and payload. -/
structure IpDgram where
  src : Nat
  payload : Payload
deriving Repr, DecidableEq

/-- client_ip.go, loop body after a successful read with `flags == 0`. -/
def classifyIP (cfg : Cfg) (server : Nat) (prev : Prev) (req : Req) (cTx1 cRx : Int)
    (d : IpDgram) : Step :=
  if d.src ≠ server then .skip .source
  else ntpStage cfg prev req cTx1 cRx d.payload

inductive Layer where
  | scion | hbh | e2e | udp | scmp
deriving Repr, DecidableEq

/-- `scion.PacketAuthSPIServer`, `scion.PacketAuthAlgorithm` (pinned against Gen in Props/C05) -/
def spiServer : Nat := 131195
def algCMAC : Nat := 0

/-- authenticator option found by `e2eLayer.FindOption(OptTypeAuthenticator)`:
    its data has the length `PacketAuthOptMetadata` insists on (else it panics — F4, C08),
    SPI, algorithm, and whether the CMAC recomputed under the fetched key equals the
    option's MAC (oracle input). -/
structure AuthOpt where
  wellFormed : Bool
  spi : Nat
  alg : Nat
  macOk : Bool
deriving Repr, DecidableEq

/-- A host address of a received SCION header as slayers hands it over: the 4-bit type/length
    field (`SrcAddrType` / `DstAddrType`; `slayers.T4Ip = 0`, `T16Ip = 3`, `T4Svc = 4`, the
    other values unassigned) and the raw bytes (`RawSrcAddr` / `RawDstAddr`; the parser cuts
    4·(type mod 4 + 1) of them, i.e. 4, 8, 12 or 16). Both are network input. -/
structure HostAddr where
  type : Nat
  raw : List Nat
deriving Repr, DecidableEq

/-- `slayers.T4Ip`, `slayers.T16Ip`, `slayers.T4Svc` (pinned against Gen in Props/C05) -/
def t4Ip : Nat := 0
def t16Ip : Nat := 3
def t4Svc : Nat := 4

/-- an IPv4 address as it sits in a SCION header -/
def HostAddr.v4 (a b c d : Nat) : HostAddr := ⟨t4Ip, [a, b, c, d]⟩

/-- the twelve bytes in front of the IPv4 address in an IPv4-mapped IPv6 address (`::ffff:a.b.c.d`) -/
def v4mappedPrefix : List Nat := [0, 0, 0, 0, 0, 0, 0, 0, 0, 0, 255, 255]

/-- `netip.AddrFromSlice(b)` followed by `Unmap()`, as the canonical byte list of the address:
    `none` when the slice has neither 4 nor 16 bytes (AddrFromSlice's `ok = false`); the last
    four bytes for an IPv4-mapped IPv6 address; the bytes themselves otherwise. Two slices
    give the same `some` value iff the unmapped addresses are equal (`netip.Addr.Compare = 0`,
    `==`: no zones arise from slices). -/
def unmapIP (b : List Nat) : Option (List Nat) :=
  if b.length = 4 then some b
  else if b.length = 16 then (if b.take 12 = v4mappedPrefix then some (b.drop 12) else some b)
  else none

/-- outcome of the unrepaired `compareIPs(x, y) == 0` -/
inductive IPCmp where
  | same | differ | panic
deriving Repr, DecidableEq

/-- `compareIPs` before the `fix:` commit (client-side twin of F4a): it panicked
    ("unexpected IP address byte slice") when either slice was no 4- or 16-byte slice — and
    the first argument is `RawSrcAddr` / `RawDstAddr` of a received packet. The address type
    was not looked at. -/
def compareIPsOld (x y : List Nat) : IPCmp :=
  match unmapIP x, unmapIP y with
  | some a, some b => if a = b then .same else .differ
  | _, _ => .panic

/-- `equalsIP(addrType, rawAddr, ip)` (repaired): the received host address is an IP address
    (type `T4Ip` or `T16Ip`) and equals `ip` up to IPv4-mapping; anything else — service
    address, unassigned type, 8 or 12 bytes — is different from every IP address. -/
def equalsIP (h : HostAddr) (ip : List Nat) : Bool :=
  (h.type == t4Ip || h.type == t16Ip) &&
    match unmapIP h.raw, unmapIP ip with
    | some a, some b => a == b
    | _, _ => false

/-- Where the NTS-protected request goes (client_ip.go / client_scion.go, the glue behind
    `FetchData`): `remoteAddr.IP = net.ParseIP(ntskeData.Server)`, `remoteAddr.Port =
    int(ntskeData.Port)`, then the 4-byte form of the address when it has one. `parsed` is the
    result of `net.ParseIP` on the server named in the key exchange — an oracle input: the 16
    bytes of an IP literal, or `none` (Go's nil) for a host name, a zoned literal, the empty
    string, garbage. Result: the one (host, port) a request may be sent to (over SCION: the
    destination host and UDP port of the SCION header, and the underlay destination when the
    server is in the client's AS), or `none`: no datagram leaves and the call fails — the write to
    an address without IP fails (IP client), `errUnexpectedAddrType` (SCION client, as repaired).
    `held` is what the caller's long-lived address object holds before the call (the configured
    server, or what an earlier exchange named): both fields are overwritten unconditionally. -/
def ntsDestination (held : List Nat × Nat) (parsed : Option (List Nat)) (port : Nat) :
    Option (List Nat × Nat) :=
  let _ := held
  match parsed with
  | none => none
  | some ip => (unmapIP ip).map fun a => (a, port)

/-- outcome of the glue for the SCION client before the `fix:` commit: a server name that is no
    IP literal left `remoteAddr.Host.IP == nil`, and `netip.AddrFromSlice(nil)` a few lines on
    ended in `panic(errUnexpectedAddrType)` -/
inductive NtsDestOld where
  | panic
  | dest (d : Option (List Nat × Nat))
deriving Repr, DecidableEq

def ntsDestinationSCIONOld (parsed : Option (List Nat)) (port : Nat) : NtsDestOld :=
  match parsed with
  | none => .panic
  | some ip => .dest ((unmapIP ip).map fun a => (a, port))

/-- A datagram as parsed by gopacket/slayers (the parse itself is outside the model):
    `decoded` = the layer types `DecodeLayers` reports, in order. -/
structure ScionDgram where
  decodeOk : Bool
  decoded : List Layer
  bufLen : Nat
  udpLength : Nat
  srcIA : Nat
  srcHost : HostAddr
  dstIA : Nat
  dstHost : HostAddr
  /-- E2E timestamp option present and parsed by `TimestampFromOOBData` (F10: network supplied) -/
  tsOpt : Option Int
  authOpt : Option AuthOpt
  payload : Payload
deriving Repr, DecidableEq

/-- addresses of the SCION exchange — `remoteAddr.IA`, the bytes of `remoteAddr.Host.IP`
    (4 bytes whenever the address has a 4-byte form: the code applies `To4()`), `localAddr.IA`,
    the bytes of `localAddr.Host.IP` (4 or 16, as the caller passed them) — and whether a DRKey
    host-host key was fetched (`authKey != nil`: `Auth.Enabled` and the fetch succeeded) -/
structure ScionCtx where
  remoteIA : Nat
  remoteHost : List Nat
  localIA : Nat
  localHost : List Nat
  keyAvailable : Bool

/-- `validSrc && validDst` as repaired; `some` = never a panic -/
def addrValid (sc : ScionCtx) (d : ScionDgram) : Bool :=
  (d.srcIA == sc.remoteIA && equalsIP d.srcHost sc.remoteHost) &&
  (d.dstIA == sc.localIA && equalsIP d.dstHost sc.localHost)

def addrCheck (sc : ScionCtx) (d : ScionDgram) : Option Bool := some (addrValid sc d)

/-- `validSrc`, then `validDst`, before the `fix:` commit: `compareIPs` is reached only behind
    the ISD-AS comparison (`&&`), the source test runs first; `none` = panic. -/
def addrCheckOld (sc : ScionCtx) (d : ScionDgram) : Option Bool :=
  let src := if d.srcIA == sc.remoteIA then compareIPsOld d.srcHost.raw sc.remoteHost else .differ
  if src = .panic then none else
  let dst := if d.dstIA == sc.localIA then compareIPsOld d.dstHost.raw sc.localHost else .differ
  if dst = .panic then none else
  some (src = .same && dst = .same)

def lastLayer (l : List Layer) : Option Layer := l.getLast?
def secondLast (l : List Layer) : Option Layer := l.dropLast.getLast?

/-- Receive time the SCION client uses for a datagram: the kernel's (`cRx`), or the time in the
    packet's E2E timestamp option (network-supplied bytes, written by a forwarder on the local
    host) — as repaired only when that time lies inside the exchange, i.e. not before the
    request's transmit time `cTx1` and not after the kernel receive time. -/
def scionRxTime (d : ScionDgram) (cTx1 cRx : Int) : Int :=
  if d.decoded.length ≥ 3 && secondLast d.decoded == some .e2e then
    match d.tsOpt with
    | some t => if cTx1 ≤ t ∧ t ≤ cRx then t else cRx
    | none => cRx
  else cRx

/-- the code before the `fix:` commit for the C08 finding "timestamp option with an early
    time": any parsable option time replaces the kernel's -/
def scionRxTimeOld (d : ScionDgram) (_cTx1 cRx : Int) : Int :=
  if d.decoded.length ≥ 3 && secondLast d.decoded == some .e2e then d.tsOpt.getD cRx else cRx

/-- client_scion.go, loop body after a successful read with `flags == 0`; `rxTime` is
    `scionRxTime` (current code) or `scionRxTimeOld`; `malformed` is what an authenticator
    option whose data is not 28 bytes long leads to: as repaired an authentication failure
    (`.skip .auth`), before the `fix:` commit a panic inside `PacketAuthOptMetadata`; `addr` is
    the source/destination test: `addrCheck` (repaired, total) or `addrCheckOld` (`none` = the
    panic of `compareIPs`). -/
def classifySCIONWith (rxTime : ScionDgram → Int → Int → Int)
    (cfg : Cfg) (sc : ScionCtx) (prev : Prev) (req : Req) (cTx1 cRx : Int)
    (d : ScionDgram) (malformed : Step := .skip .auth)
    (addr : ScionCtx → ScionDgram → Option Bool := addrCheck) : Step :=
  if !d.decodeOk then .skip .layers
  else if !(d.decoded.length ≥ 2 && (lastLayer d.decoded == some .udp || lastLayer d.decoded == some .scmp)) then
    .skip .unexpected
  else if lastLayer d.decoded == some .scmp then .skip .unexpected
  else if d.bufLen < d.udpLength then .skip .unexpected
  else if addr sc d == none then .panic
  else if addr sc d != some true then .skip .unexpected
  else
    let e2e := d.decoded.length ≥ 3 && secondLast d.decoded == some .e2e
    let next := ntpStage cfg prev req cTx1 (rxTime d cTx1 cRx) d.payload
    if e2e && sc.keyAvailable then
      match d.authOpt with
      | none => next
      | some a =>
        if !a.wellFormed then malformed
        else if a.spi == spiServer && a.alg == algCMAC then
          if !a.macOk then .skip .auth else next
        else next
    else next

def classifySCION (cfg : Cfg) (sc : ScionCtx) (prev : Prev) (req : Req) (cTx1 cRx : Int) (d : ScionDgram) : Step :=
  classifySCIONWith scionRxTime cfg sc prev req cTx1 cRx d
def classifySCIONOld (cfg : Cfg) (sc : ScionCtx) (prev : Prev) (req : Req) (cTx1 cRx : Int) (d : ScionDgram) : Step :=
  classifySCIONWith scionRxTimeOld cfg sc prev req cTx1 cRx d
/-- the code before the `fix:` commit for the malformed-authenticator finding (client-side twin
    of F4b): option data of a length other than 28 made `PacketAuthOptMetadata` panic -/
def classifySCIONAuthOld (cfg : Cfg) (sc : ScionCtx) (prev : Prev) (req : Req) (cTx1 cRx : Int) (d : ScionDgram) : Step :=
  classifySCIONWith scionRxTime cfg sc prev req cTx1 cRx d .panic

/-- the code before the `fix:` commit for the address comparison (client-side twin of F4a):
    a received host address of 8 or 12 bytes made `compareIPs` panic -/
def classifySCIONAddrOld (cfg : Cfg) (sc : ScionCtx) (prev : Prev) (req : Req) (cTx1 cRx : Int) (d : ScionDgram) : Step :=
  classifySCIONWith scionRxTime cfg sc prev req cTx1 cRx d (.skip .auth) addrCheckOld

/-- what the socket delivers to one loop iteration -/
inductive Event (D : Type) where
  /-- datagram with `flags == 0`, its kernel receive timestamp (or the clock reading that
      replaces it), and the value of `timebase.Now().Before(deadline)` should it be asked -/
  | dgram (d : D) (cRx : Int) (beforeDeadline : Bool)
  | readErr (beforeDeadline : Bool)
  | badFlags (beforeDeadline : Bool)
deriving Repr

inductive Outcome where
  | accepted (a : Accepted) (consumed : Nat)
  | error (e : ErrKind) (consumed : Nat)
  | panic (consumed : Nat)
  /-- events exhausted: the code is still blocked in `ReadMsgUDPAddrPort` -/
  | blocked
deriving Repr, DecidableEq

/-- `const maxNumRetries = 1` -/
def maxNumRetries : Nat := 1

/-- only an accepted response carries a timestamp and an offset back to the caller -/
def Outcome.hasOffset : Outcome → Bool
  | .accepted _ _ => true
  | _ => false

def Step.isAccept : Step → Bool
  | .accept _ => true
  | _ => false

/-- `numRetries != maxNumRetries && deadlineIsSet && timebase.Now().Before(deadline)` -/
def mayRetry (numRetries : Nat) (deadlineSet before : Bool) : Bool :=
  numRetries != maxNumRetries && deadlineSet && before

/-- the receive loop (`for { … }`), `n` = number of events consumed so far -/
def runLoop {D : Type} (classify : Int → D → Step) (deadlineSet : Bool) :
    (numRetries n : Nat) → List (Event D) → Outcome
  | _, _, [] => .blocked
  | r, n, .readErr b :: rest =>
    if mayRetry r deadlineSet b then runLoop classify deadlineSet (r + 1) (n + 1) rest
    else .error .read (n + 1)
  | r, n, .badFlags b :: rest =>
    if mayRetry r deadlineSet b then runLoop classify deadlineSet (r + 1) (n + 1) rest
    else .error .flags (n + 1)
  | r, n, .dgram d cRx b :: rest =>
    match classify cRx d with
    | .skip e =>
      if mayRetry r deadlineSet b then runLoop classify deadlineSet (r + 1) (n + 1) rest
      else .error e (n + 1)
    | .fatal e => .error e (n + 1)
    | .panic => .panic (n + 1)
    | .accept a => .accepted a (n + 1)

/-- `prev` after an accepted response (`if c.InterleavedMode { c.prev… = … }`);
    `cTx1` = kernel transmit timestamp of the request (`cTxTime1`). -/
def updatePrev (cfg : Cfg) (prev : Prev) (reference : String) (cTx1 : Int) (a : Accepted) : Prev :=
  if cfg.interleavedMode then
    { reference := reference, interleaved := a.il, cTx := ofTime cTx1, cRx := ofTime a.cRx,
      sRx := a.sRx64 }
  else prev

/-- `off`, `rtd` of an accepted response -/
def Accepted.offset (a : Accepted) : Int64 := clockOffset64 a.t0 a.t1 a.t2 a.t3
def Accepted.rtd (a : Accepted) : Int64 := roundTripDelay64 a.t0 a.t1 a.t2 a.t3

/-- The value returned as `offset`: `off` when `Filter == nil`, else `Filter.Do(t0,t1,t2,t3)`. -/
def returnedOffset (filter : Option (Int → Int → Int → Int → Int64)) (a : Accepted) : Int64 :=
  match filter with
  | none => a.offset
  | some f => f a.t0 a.t1 a.t2 a.t3

/-- One whole IP exchange from the request on: outcome and new `prev`. -/
def exchangeIP (cfg : Cfg) (server : Nat) (prev : Prev) (reference : String) (now cTx1 : Int)
    (evs : List (Event IpDgram)) : Outcome × Prev :=
  let req := mkRequest cfg prev reference now
  let out := runLoop (fun cRx d => classifyIP cfg server prev req cTx1 cRx d) cfg.deadlineSet 0 0 evs
  (out, match out with
    | .accepted a _ => updatePrev cfg prev reference cTx1 a
    | _ => prev)

def exchangeSCION (cfg : Cfg) (sc : ScionCtx) (prev : Prev) (reference : String) (now cTx1 : Int)
    (evs : List (Event ScionDgram)) : Outcome × Prev :=
  let req := mkRequest cfg prev reference now
  let out := runLoop (fun cRx d => classifySCION cfg sc prev req cTx1 cRx d) cfg.deadlineSet 0 0 evs
  (out, match out with
    | .accepted a _ => updatePrev cfg prev reference cTx1 a
    | _ => prev)

/-- result of one `measureClockOffsetIP` call as `MeasureClockOffsetIP` sees it:
    `(t, o, nil)` together with `InInterleavedMode()` evaluated after the call, or an error. -/
inductive Attempt where
  | ok (ts : Int) (off : Int64) (inIL : Bool)
  | err (e : ErrKind)
deriving Repr, DecidableEq

/-- `(ts, off, err)` of `MeasureClockOffsetIP`; `err = none` is Go's `nil`. -/
structure WrapState where
  ts : Int
  off : Int64
  err : Option ErrKind
  nerr : Nat
deriving Repr, DecidableEq

/-- `MeasureClockOffsetIP`: `for i := range n` over the attempts that are actually made
    (the list ends where the loop `break`s or after `n` attempts — see `wrapIP`). -/
def wrapLoop : (i : Nat) → WrapState → List Attempt → WrapState
  | _, s, [] => s
  | i, s, .ok t o inIL :: rest =>
    let s' := { s with ts := t, off := o, err := none }
    if inIL then s' else wrapLoop (i + 1) s' rest
  | i, s, .err e :: rest =>
    let s' := { s with err := if s.nerr = i then some e else s.err, nerr := s.nerr + 1 }
    wrapLoop (i + 1) s' rest

/-- `n = 3` with `InterleavedMode`, else `1`; zero values for the named results. -/
def wrapIP (interleavedMode : Bool) (attempts : List Attempt) : WrapState :=
  wrapLoop 0 ⟨0, 0, none, 0⟩ (attempts.take (if interleavedMode then 3 else 1))

/-- `c.InInterleavedMode()` -/
def inInterleavedMode (cfg : Cfg) (prev : Prev) : Bool :=
  cfg.interleavedMode && prev.reference != "" && prev.interleaved

end ScionTime.ClientNtp
