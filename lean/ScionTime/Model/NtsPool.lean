/-
  Model of the client-side cookie pool (net/ntske/fetcher.go: FetchData, StoreCookie — pool
  semantics only; the key exchange itself belongs to C20) and of one client exchange
  (core/client/client_ip.go: FetchData → NewRequestPacket → EncodePacket, and
  DecodePacket → ProcessResponse → StoreCookie for every cookie of an authenticated response).
-/
import ScionTime.Model.Nts
namespace ScionTime.NtsPool
open ScionTime.Nts

/-- `FetchData` with a non-empty pool: hands out a copy of the data (whole pool, the request
    uses `Cookie[0]`) and pops the first cookie. `none`: pool empty — the real code runs a key
    exchange first. -/
def fetchData {α : Type} (pool : List α) : Option (List α × List α) :=
  match pool with
  | [] => none
  | _ :: rest => some (pool, rest)

/-- `StoreCookie` -/
def storeCookie {α : Type} (pool : List α) (c : α) : List α := pool ++ [c]

theorem storeCookies_foldl {α : Type} (pool cs : List α) : cs.foldl storeCookie pool = pool ++ cs := by
  induction cs generalizing pool with
  | nil => simp
  | cons c cs ih => simp [List.foldl, ih, storeCookie]

structure Client where
  pool : List Bytes := []
  c2s : Bytes := []
  s2c : Bytes := []
  reqId : Bytes := []
deriving DecidableEq, Repr

/-- one request: `rnd` = the `crypto/rand` stream (32 bytes for the unique identifier, then 16 for
    the authenticator nonce). -/
def request (A : AEAD) (st : Client) (hdr rnd : Bytes) : Client × Res Bytes :=
  match fetchData st.pool with
  | none => (st, .err .noCookies)
  | some (data, rest) =>
    let uid := copyN 32 rnd
    let st' := { st with pool := rest, reqId := uid }
    match newRequestPacket data st.c2s uid with
    | .ok p => (st', encodePacket A hdr p (draw16 (rnd.drop 32)).1)
    | .err e => (st', .err e) | .panic p => (st', .panic p) | .hang => (st', .hang)

/-- one received datagram handled as the response to the outstanding request. -/
def response (A : AEAD) (st : Client) (b : Bytes) : Client × Res Unit :=
  match decodePacket b >>= fun d => processResponse A b st.s2c d st.reqId with
  | .ok cs => ({ st with pool := cs.foldl storeCookie st.pool }, .ok ())
  | .err e => (st, .err e) | .panic p => (st, .panic p) | .hang => (st, .hang)

end ScionTime.NtsPool
