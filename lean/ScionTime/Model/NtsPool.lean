/-
  Model of the client-side cookie pool (net/ntske/fetcher.go: FetchData, StoreCookie — pool
  semantics only; the key exchange itself belongs to C20) and of one client exchange
  (core/client/client_ip.go: FetchData → NewRequestPacket → EncodePacket, and
  DecodePacket → ProcessResponse → StoreCookie for every cookie of an authenticated response),
  and of the NTS stage of the clients' receive loop over the datagrams of one exchange
  (core/client/client_ip.go measureClockOffsetIP, client_scion.go measureClockOffsetSCION).
-/
import ScionTime.Model.Nts
namespace ScionTime.NtsPool
open ScionTime.Nts

/-- `FetchData` with a non-empty pool: hands out a copy of the data (whole pool, the request
    uses `Cookie[0]`) and pops the first cookie. `none`: pool empty — the real code runs a key
    exchange first. -/
def fetchData {α : Type} (pool : List α) : Option (List α × List α) :=
  match pool with
  | [] => none
  | _ :: rest => some (pool, rest)

/-- `StoreCookie` -/
def storeCookie {α : Type} (pool : List α) (c : α) : List α := pool ++ [c]

theorem storeCookies_foldl {α : Type} (pool cs : List α) : cs.foldl storeCookie pool = pool ++ cs := by
  induction cs generalizing pool with
  | nil => simp
  | cons c cs ih => simp [List.foldl, ih, storeCookie]

structure Client where
  pool : List Bytes := []
  c2s : Bytes := []
  s2c : Bytes := []
  reqId : Bytes := []
deriving DecidableEq, Repr

/-- one request: `rnd` = the `crypto/rand` stream (32 bytes for the unique identifier, then 16 for
    the authenticator nonce). -/
def request (A : AEAD) (st : Client) (hdr rnd : Bytes) : Client × Res Bytes :=
  match fetchData st.pool with
  | none => (st, .err .noCookies)
  | some (data, rest) =>
    let uid := copyN 32 rnd
    let st' := { st with pool := rest, reqId := uid }
    match newRequestPacket data st.c2s uid with
    | .ok p => (st', encodePacket A hdr p (draw16 (rnd.drop 32)).1)
    | .err e => (st', .err e) | .panic p => (st', .panic p) | .hang => (st', .hang)

/-- one received datagram handled as the response to the outstanding request. -/
def response (A : AEAD) (st : Client) (b : Bytes) : Client × Res Unit :=
  match decodePacket b >>= fun d => processResponse A b st.s2c d st.reqId with
  | .ok cs => ({ st with pool := cs.foldl storeCookie st.pool }, .ok ())
  | .err e => (st, .err e) | .panic p => (st, .panic p) | .hang => (st, .hang)

/-- `const maxNumRetries = 1` (client_ip.go and client_scion.go) -/
def maxNumRetries : Nat := 1

/-- The NTS stage of the receive loop of `measureClockOffsetIP` / `measureClockOffsetSCION`
    (identical text in both):

        for {
          … read one datagram …
          var ntsresp nts.Packet                       // declared inside the loop body
          err = nts.DecodePacket(&ntsresp, buf)        // appends to ntsresp.Cookies while it walks
          … err = nts.ProcessResponse(buf, ntskeData.S2cKey, &c.Auth.NTSKEFetcher, &ntsresp, requestID)
          if err != nil { if numRetries != maxNumRetries && deadlineIsSet && Now().Before(deadline) { numRetries++; continue }; return err }
          …
        }

    Every datagram is decoded into a packet value of its own, so one iteration is `response`
    (whose `decodePacket` starts from the empty packet) and whatever `DecodePacket` collected
    from a datagram it then refuses is gone with that iteration. `dgrams` = the payloads that
    reach the NTS stage, in delivery order; the list ends where the deadline expires (read
    error). `budget` = number of datagrams the loop may still look at: `maxNumRetries + 1` on
    entry when the context carries a deadline (1 without). `.ok true`: a datagram passed
    `ProcessResponse` — its cookies are in the pool, the loop goes on to the NTP checks with
    it (C05's model) and reads nothing further when they pass; `.ok false`: the exchange fails
    with the last error. -/
def recvLoop (A : AEAD) : Nat → Client → List Bytes → Client × Res Bool
  | 0, st, _ => (st, .ok false)
  | _ + 1, st, [] => (st, .ok false)
  | n + 1, st, b :: rest =>
    match response A st b with
    | (st', .ok _) => (st', .ok true)
    | (st', .err _) => recvLoop A n st' rest
    | (st', .panic p) => (st', .panic p)
    | (st', .hang) => (st', .hang)

/-- one whole exchange as far as NTS is concerned: request, then the receive loop with a
    deadline. Result: the request on the wire and whether a datagram was authenticated. -/
def exchange (A : AEAD) (st : Client) (hdr rnd : Bytes) (dgrams : List Bytes) : Client × Res (Bytes × Bool) :=
  match request A st hdr rnd with
  | (st1, .ok req) =>
    match recvLoop A (maxNumRetries + 1) st1 dgrams with
    | (st2, .ok acc) => (st2, .ok (req, acc))
    | (st2, .err e) => (st2, .err e) | (st2, .panic p) => (st2, .panic p) | (st2, .hang) => (st2, .hang)
  | (st1, .err e) => (st1, .err e) | (st1, .panic p) => (st1, .panic p) | (st1, .hang) => (st1, .hang)

end ScionTime.NtsPool
