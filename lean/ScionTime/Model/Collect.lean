/-
  Model/Collect.lean — core/client/client.go: `collectMeasurements` as called by
  `(*ReferenceClockClient).MeasureClockOffsets`, as a nondeterministic transition system under
  virtual time. Core Lean only.

  Goroutines: one per reference clock (first inside `refclk.MeasureClockOffset(ctx)` —
  `measuring` — then blocked in `msc <- m` on the unbuffered channel — `sending`), the collector
  (the `for i != n { select … }` loop, then returned), the drain goroutine `for n != 0 { <-msc }`
  started with `n - i` when the collector leaves the loop, and the context's deadline timer.
  A `Choice` is one step of one of them; a schedule is a `List Choice`; `step` returns `none`
  when the chosen step is not enabled. Every theorem of Props/C16 quantifies over all schedules.
  Go's `select` (random among ready cases) and the goroutine scheduler are over-approximated: a
  receive may be chosen although `ctx.Done()` is ready and vice versa.

  Time: `now` is the virtual clock. `tick t` (the clock advances to the next timer `t`) is
  enabled only when no goroutine can run (`busy = false`) and `t` is the earliest pending timer —
  the semantics of testing/synctest and the zero-latency idealisation under which "returns no
  later than the deadline" is meant.
-/
namespace ScionTime.Collect

/-- One reference clock's measurement call. -/
structure Sender where
  id : Nat
  /-- virtual instant at which `MeasureClockOffset` returns by itself -/
  due : Int
  /-- `err == nil` of that return -/
  ok : Bool
  /-- the call watches `ctx` and returns an error as soon as `ctx` is cancelled -/
  aware : Bool
deriving DecidableEq, Repr

/-- A `measurements.Measurement` on its way through `msc`: whose it is and whether `Error == nil`. -/
structure Msg where
  id : Nat
  ok : Bool
deriving DecidableEq, Repr

inductive Phase where
  /-- the collector is in its `for i != n { select … }` loop -/
  | loop
  /-- `collectMeasurements` has returned; the drain goroutine has `left` receives to go -/
  | done (left : Nat)
deriving DecidableEq, Repr

structure St where
  now : Int
  deadline : Int
  ctxDone : Bool
  measuring : List Sender
  sending : List Msg
  phase : Phase
  i : Nat
  j : Nat
  ms : List Msg
  n : Nat
  /-- instant at which `collectMeasurements` returned (meaningful once `phase = done _`) -/
  retAt : Int
  /-- ghost: messages received by the collector, in arrival order -/
  received : List Msg
  /-- ghost: messages received by the drain goroutine -/
  drained : List Msg
deriving Repr

inductive Choice where
  /-- the measurement call of sender `id` returns, its due instant being reached; it goes on to `msc <- m` -/
  | finish (id : Nat)
  /-- a ctx-aware measurement call returns with an error because `ctx` is cancelled -/
  | abort (id : Nat)
  /-- the deadline timer of the context fires -/
  | cancel
  /-- the collector's select takes `m := <-msc` from sender `id` -/
  | recv (id : Nat)
  /-- the collector's select takes `<-ctx.Done()`: break, start the drain goroutine, return -/
  | observeCancel
  /-- the loop condition `i != n` is false: start the drain goroutine (with 0), return -/
  | retFull
  /-- the drain goroutine takes `<-msc` from sender `id` -/
  | drain (id : Nat)
  /-- nothing can run: the clock advances to the earliest pending timer `t` -/
  | tick (t : Int)
deriving Repr

/-- Entry of `MeasureClockOffsets` at instant `t0` with result slice `ms0` (whatever the caller
    left in it), `len(ms0) = len(refclks)`, the context's deadline `deadline`
    (`context.WithTimeout` cancels at once when the deadline is not in the future). -/
def init (t0 deadline : Int) (senders : List Sender) (ms0 : List Msg) : St :=
  { now := t0, deadline := deadline, ctxDone := decide (deadline ≤ t0),
    measuring := senders, sending := [], phase := .loop, i := 0, j := 0, ms := ms0,
    n := ms0.length, retAt := t0, received := [], drained := [] }

def findSender (l : List Sender) (id : Nat) : Option Sender := l.find? (fun x => x.id == id)
def findMsg (l : List Msg) (id : Nat) : Option Msg := l.find? (fun x => x.id == id)

/-- pending timers: the context's deadline and the due instants of running measurement calls -/
def timers (s : St) : List Int :=
  (if s.ctxDone then [] else [s.deadline]) ++ s.measuring.map (·.due)

/-- some goroutine (or a timer that is due now) can take a step without the clock advancing -/
def busy (s : St) : Bool :=
  (match s.phase with
   | .loop => decide (s.i = s.n) || !s.sending.isEmpty || s.ctxDone
   | .done left => decide (left ≠ 0) && !s.sending.isEmpty) ||
  (!s.ctxDone && decide (s.deadline ≤ s.now)) ||
  s.measuring.any (fun x => decide (x.due ≤ s.now) || (x.aware && s.ctxDone))

/-- the collector's `case m := <-msc` body: `if m.Error == nil { if j != len(ms) { ms[j] = m; j++ } }; i++` -/
def collectorRecv (s : St) (m : Msg) : St :=
  let s1 := if m.ok then (if s.j ≠ s.ms.length then { s with ms := s.ms.set s.j m, j := s.j + 1 } else s) else s
  { s1 with i := s1.i + 1, received := s1.received ++ [m] }

def step (s : St) : Choice → Option St
  | .finish id =>
    match findSender s.measuring id with
    | some x =>
      if x.due ≤ s.now then
        some { s with measuring := s.measuring.erase x, sending := s.sending ++ [{ id := x.id, ok := x.ok }] }
      else none
    | none => none
  | .abort id =>
    match findSender s.measuring id with
    | some x =>
      if x.aware ∧ s.ctxDone then
        some { s with measuring := s.measuring.erase x, sending := s.sending ++ [{ id := x.id, ok := false }] }
      else none
    | none => none
  | .cancel =>
    if ¬ s.ctxDone ∧ s.deadline = s.now then some { s with ctxDone := true } else none
  | .recv id =>
    match s.phase, findMsg s.sending id with
    | .loop, some m =>
      if s.i ≠ s.n then some (collectorRecv { s with sending := s.sending.erase m } m) else none
    | _, _ => none
  | .observeCancel =>
    match s.phase with
    | .loop => if s.i ≠ s.n ∧ s.ctxDone then some { s with phase := .done (s.n - s.i), retAt := s.now } else none
    | _ => none
  | .retFull =>
    match s.phase with
    | .loop => if s.i = s.n then some { s with phase := .done (s.n - s.i), retAt := s.now } else none
    | _ => none
  | .drain id =>
    match s.phase, findMsg s.sending id with
    | .done left, some m =>
      if left ≠ 0 then
        some { s with sending := s.sending.erase m, phase := .done (left - 1), drained := s.drained ++ [m] }
      else none
    | _, _ => none
  | .tick t =>
    if ¬ busy s ∧ s.now < t ∧ t ∈ timers s ∧ (timers s).all (fun u => decide (t ≤ u)) then
      some { s with now := t }
    else none

/-- run a schedule; `none` if it takes a step that is not enabled -/
def run (s : St) : List Choice → Option St
  | [] => some s
  | c :: rest => match step s c with
    | some s' => run s' rest
    | none => none

/-! ### The compare-and-swap guard of `MeasureClockOffsets` (`numOpsInProgress`). -/

inductive GuardEv where
  /-- a caller reaches `CompareAndSwapUint32(&numOpsInProgress, 0, 1)` -/
  | enter
  /-- the deferred `CompareAndSwapUint32(addr, 1, 0)` of an accepted caller -/
  | leave
deriving Repr, DecidableEq

inductive GuardRes where
  | accepted
  | refused      -- panic "too many reference clock offset measurements in progress"
  | left
  | inconsistent -- panic "inconsistent count of reference clock offset measurements"
deriving Repr, DecidableEq

def guardStep (g : Nat) : GuardEv → Nat × GuardRes
  | .enter => if g = 0 then (1, .accepted) else (g, .refused)
  | .leave => if g = 1 then (0, .left) else (g, .inconsistent)

/-- state and number of callers inside after a sequence of events, with the results -/
def guardRun (g : Nat) : List GuardEv → Nat × List GuardRes
  | [] => (g, [])
  | e :: rest =>
    let r := guardStep g e
    let q := guardRun r.1 rest
    (q.1, r.2 :: q.2)

/-- Entry of `MeasureClockOffsets`: the length check comes before the guard (a length panic
    leaves `numOpsInProgress` untouched), then the CAS. The theorems of Props/C16 about a round
    assume `len(ms) = len(refclks)`; this is where the code enforces it. -/
inductive EntryRes where
  | lenPanic   -- panic "number of result offsets must be equal to the number of reference clocks"
  | refused
  | accepted
deriving Repr, DecidableEq

def entry (lenMs lenClks g : Nat) : Nat × EntryRes :=
  if lenMs ≠ lenClks then (g, .lenPanic)
  else match guardStep g .enter with
    | (g', .accepted) => (g', .accepted)
    | (g', _) => (g', .refused)

end ScionTime.Collect
