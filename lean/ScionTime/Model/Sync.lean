/-
  Model/Sync.lean — the synchronization loop of core/sync/sync.go (`Run`), as far as the
  correction handed to `adjustments.Adjustment.Do` is concerned.

  Go units mirrored here (function by function):
    time.Duration.Abs                      → `absDur`
    base/timemath  Sgn, Midpoint           → `sgn`, `midpoint`        (int64 wrap-around kept)
    core/measurements FaultTolerantMidpoint → `sortOffsets`, `ftmOffsets`  (LOCAL COPY, offsets
        only; the authoritative model is builder c02c18's, the integrator unifies later)
    core/client ReferenceClockClient.MeasureClockOffsets / collectMeasurements
        → `collect`  (CONTRACT only: the in-time successes of this round overwrite the *front*
          of the result slice, the rest keeps what the previous round left there — which is
          the slice as re-ordered by the previous round's `slices.SortFunc`; the detailed
          channel/select model is builder c12c16's, C16)
    core/sync  measureOffsetToRefClks       → `measure`
    core/sync  localReferenceClock          → `localReferenceClockOffset`
    core/sync  Run prologue (start-up panics) → `startup`, `admissible`  (repaired form, F14),
                                               `startupOld`, `admissibleOld` (as found)
    core/sync  Run loop body                → `clamp`, `peerPart`, `combine`, `correction`, `round`
    core/sync  Run                          → `runFrom`, `run`

  Floating point is the exact software double of Model/F64.lean.  `clk.Drift(SyncInterval)`
  is an int64 *input* (`Cfg.drift`): the float product inside `SystemClock.Drift` is the
  cap's definition as far as the property is concerned.

  Only offsets are modelled (timestamps of measurements never reach the correction).
  Since `slices.SortFunc` orders by `Offset` only, the sorted slice *of offsets* is uniquely
  determined although the sort is unstable; so the state after a round is a function of the
  state before and of the multiset of in-time successes, and no permutation has to be
  supplied from outside.

  Core Lean only.
-/
import ScionTime.Model.F64

namespace ScionTime.Sync
open ScionTime.F64

/-! ### Integers -/

/-- `time.Duration.Abs`: `|d|`, with `MinInt64 ↦ MaxInt64`. -/
def absDur (d : Int64) : Int64 :=
  if d ≥ 0 then d else if d = Int64.minValue then Int64.maxValue else -d

/-- `timemath.Sgn` -/
def sgn (d : Int64) : Int :=
  if d < 0 then -1 else if d > 0 then 1 else 0

/-- `timemath.Midpoint`: `x + (y-x)/2` on int64 (wrap-around `+ -`, truncating `/`). -/
def midpoint (x y : Int64) : Int64 := x + (y - x) / 2

/-- `float64(d)` for a `time.Duration` -/
def f64OfDur (d : Int64) : F64 := F64.ofInt d.toInt

/-- `time.Duration(f)` for a float64 (amd64 CVTTSD2SQ) -/
def durOfF64 (f : F64) : Int64 := Int64.ofInt (F64.toInt64 f)

/-! ### FaultTolerantMidpoint over offsets (local copy, see header) -/

def insertSorted (x : Int64) : List Int64 → List Int64
  | [] => [x]
  | y :: ys => if x ≤ y then x :: y :: ys else y :: insertSorted x ys

/-- the offsets of the slice after `slices.SortFunc(ms, cmp.Compare(a.Offset, b.Offset))` -/
def sortOffsets : List Int64 → List Int64
  | [] => []
  | x :: xs => insertSorted x (sortOffsets xs)

/-- `measurements.FaultTolerantMidpoint(ms).Offset` on an already sorted, non-empty slice:
    `f = (n-1)/3`, `midpoint(ms[f], ms[n-1-f])`.  Both indices are `< n` (lemma
    `ftm_indices_lt` in Proofs/C01.lean), the `getD` default is never used. -/
def ftmSorted (ms : List Int64) : Int64 :=
  let n := ms.length
  let f := (n - 1) / 3
  midpoint (ms.getD f 0) (ms.getD (n - 1 - f) 0)

/-- `measurements.FaultTolerantMidpoint`: `none` is `panic("unexpected number of values")`;
    otherwise the slice as left behind (sorted) and the offset of the result. -/
def ftmOffsets (ms : List Int64) : Option (List Int64 × Int64) :=
  if ms.isEmpty then none else
  let s := sortOffsets ms
  some (s, ftmSorted s)

/-! ### One measurement round on one side -/

/-- Contract of `ReferenceClockClient.MeasureClockOffsets` (`collectMeasurements`): the
    measurements that arrive without error before the context is done are written to
    `ms[0], ms[1], …` in arrival order (`if j != len(ms)` guards the length); everything
    behind them keeps its old content. -/
def collect (ms succ : List Int64) : List Int64 :=
  let s := succ.take ms.length
  s ++ ms.drop s.length

/-- `measureOffsetToRefClks` guarded by `len(refClks) != 0` as in the two goroutines of
    `Run` (`len(refClkOffsets) = len(refClks)` by construction): new slice content, offset. -/
def measure (ms succ : List Int64) : List Int64 × Int64 :=
  if ms.isEmpty then (ms, 0) else
  let s := sortOffsets (collect ms succ)
  (s, ftmSorted s)

/-- `localReferenceClock.MeasureClockOffset` returns offset 0, no error, immediately. -/
def localReferenceClockOffset : Int64 := 0

/-! ### Configuration and start-up -/

/-- `sync.Config` plus what `Run` reads from its other arguments: `clk.Drift(SyncInterval)`
    and the numbers of reference clocks and peers. -/
structure Cfg where
  refImpact : F64
  peerImpact : F64
  cutoff : Int64
  timeout : Int64
  interval : Int64
  drift : Int64
  nRef : Nat
  nPeer : Nat
deriving Repr

/-- the start-up panics of `Run`, in source order -/
inductive StartErr where
  | refImpact      -- "invalid local reference clock impact factor"
  | peerImpact     -- "invalid peer clock impact factor"   (factor itself)
  | peerGap        -- "invalid peer clock impact factor"   (peer − 1 vs reference factor)
  | interval       -- "invalid sync interval"
  | timeout        -- "invalid sync timeout"
  | refCap         -- "unexpected system clock behavior"   (refClkMaxCorr)
  | peerCap        -- "unexpected system clock behavior"   (peerClkMaxCorr)
deriving DecidableEq, Repr

def StartErr.msg : StartErr → String
  | .refImpact => "invalid local reference clock impact factor"
  | .peerImpact => "invalid peer clock impact factor"
  | .peerGap => "invalid peer clock impact factor"
  | .interval => "invalid sync interval"
  | .timeout => "invalid sync timeout"
  | .refCap => "unexpected system clock behavior"
  | .peerCap => "unexpected system clock behavior"

def one : F64 := F64.ofInt 1
def fzero : F64 := F64.zero false

/-- `refClkMaxCorr := cfg.ReferenceClockImpact * float64(clk.Drift(cfg.SyncInterval))` -/
def refCap (c : Cfg) : F64 := F64.mul c.refImpact (f64OfDur c.drift)
/-- `peerClkMaxCorr := cfg.PeerClockImpact * float64(clk.Drift(cfg.SyncInterval))` -/
def peerCap (c : Cfg) : F64 := F64.mul c.peerImpact (f64OfDur c.drift)

def isInf : F64 → Bool
  | .inf _ => true
  | _ => false

/-- The prologue of `Run` AS FOUND: every test is `x <= bound → panic`; a comparison with
    NaN is false, so NaN passes every test (F14). -/
def startupOld (c : Cfg) : Option StartErr :=
  if F64.le c.refImpact one then some .refImpact
  else if F64.le c.peerImpact one then some .peerImpact
  else if F64.le (F64.sub c.peerImpact one) c.refImpact then some .peerGap
  else if c.interval ≤ 0 then some .interval
  else if c.timeout < 0 ∨ c.timeout > c.interval / 2 then some .timeout
  else if F64.le (refCap c) fzero then some .refCap
  else if F64.le (peerCap c) fzero then some .peerCap
  else none

/-- The prologue of `Run` AS REPAIRED (fix for F14): `!(x > bound) → panic`, and the caps
    must not be `+Inf` (`math.IsInf(cap, 1)`). -/
def startup (c : Cfg) : Option StartErr :=
  if !(F64.gt c.refImpact one) then some .refImpact
  else if !(F64.gt c.peerImpact one) then some .peerImpact
  else if !(F64.gt (F64.sub c.peerImpact one) c.refImpact) then some .peerGap
  else if c.interval ≤ 0 then some .interval
  else if c.timeout < 0 ∨ c.timeout > c.interval / 2 then some .timeout
  else if !(F64.gt (refCap c) fzero) || (refCap c == F64.inf false) then some .refCap
  else if !(F64.gt (peerCap c) fzero) || (peerCap c == F64.inf false) then some .peerCap
  else none

def admissibleOld (c : Cfg) : Bool := (startupOld c).isNone
def admissible (c : Cfg) : Bool := (startup c).isNone

/-! ### The loop body -/

/-- `if float64(x.Abs()) > M { x = time.Duration(float64(timemath.Sgn(x)) * M) }` -/
def clamp (M : F64) (x : Int64) : Int64 :=
  if F64.gt (f64OfDur (absDur x)) M then durOfF64 (F64.mul (F64.ofInt (sgn x)) M) else x

/-- the peer branch: `(peerClkCorr, peerClkOk)`; `havePeers` is `len(peerClks) != 0`.
    ```
    if peerClkCorr.Abs() > cfg.PeerClockCutoff {
        if float64(peerClkCorr.Abs()) > peerClkMaxCorr { … clamp … }
        peerClkOk = len(peerClks) != 0
    }
    ``` -/
def peerPart (M : F64) (cutoff : Int64) (havePeers : Bool) (x : Int64) : Int64 × Bool :=
  if absDur x > cutoff then (clamp M x, havePeers) else (x, false)

/-- the `switch` on `(refClkOk, peerClkOk)`; `corr` stays 0 when neither is ok -/
def combine (refOk peerOk : Bool) (r p : Int64) : Int64 :=
  match refOk, peerOk with
  | true, false => r
  | false, true => p
  | true, true => midpoint r p
  | false, false => 0

/-- from the two measured offsets to the argument of `adj.Do` -/
def correction (c : Cfg) (haveRefs havePeers : Bool) (refOff peerOff : Int64) : Int64 :=
  let refCorr := clamp (refCap c) refOff
  let refOk := haveRefs
  let pp := peerPart (peerCap c) c.cutoff havePeers peerOff
  combine refOk pp.2 refCorr pp.1

/-- The two result slices (offsets only) that `Run` allocates once and reuses.
    `len(refClks)` is `ref.length`; `peer` includes the slot of the appended
    `localReferenceClock` (so it is empty iff no peers are configured). -/
structure State where
  ref : List Int64
  peer : List Int64
deriving Repr, DecidableEq

/-- What one round's sources deliver, as far as `Run` can see it: the offsets of the
    measurements that arrived without error before the timeout (any order), per side;
    for the peer side those of the *configured* peers — the local reference clock's 0 is
    added by the model (`localInTime`: it answers immediately, so it is in time whenever
    the timeout is positive). -/
structure RoundInput where
  ref : List Int64
  peer : List Int64
  localInTime : Bool := true
deriving Repr

def init (c : Cfg) : State :=
  { ref := List.replicate c.nRef 0,
    peer := if c.nPeer = 0 then [] else List.replicate (c.nPeer + 1) 0 }

/-- one iteration of the `for` loop of `Run`: new slices, argument of `adj.Do` -/
def round (c : Cfg) (st : State) (i : RoundInput) : State × Int64 :=
  let r := measure st.ref i.ref
  let psucc := i.peer ++ (if i.localInTime then [localReferenceClockOffset] else [])
  let p := measure st.peer psucc
  ({ ref := r.1, peer := p.1 },
   correction c (!st.ref.isEmpty) (!st.peer.isEmpty) r.2 p.2)

def runFrom (c : Cfg) (st : State) : List RoundInput → List Int64
  | [] => []
  | i :: is =>
    let r := round c st i
    r.2 :: runFrom c r.1 is

/-- `Run`: refuse at start-up, or one correction per round. -/
def run (c : Cfg) (h : List RoundInput) : Except StartErr (List Int64) :=
  match startup c with
  | some e => .error e
  | none => .ok (runFrom c (init c) h)

/-- `Run` as found (start-up tests of the unrepaired code). -/
def runOld (c : Cfg) (h : List RoundInput) : Except StartErr (List Int64) :=
  match startupOld c with
  | some e => .error e
  | none => .ok (runFrom c (init c) h)

end ScionTime.Sync
