/-
  Model/Ntske.lean — NTS key exchange (net/ntske/ntske.go, fetcher.go, ntske_ip.go;
  core/server/ntske.go).  Core Lean only.

  Bytes are `Nat` (wire bytes are < 256; nothing below depends on it except where a bound
  is stated).  16-bit wire fields are big-endian: `be16 a b = a*256 + b`,
  `u16 v = [v/256 % 256, v % 256]`.

  The transport is a *chunked* byte stream `List (List Byte)`: each chunk is what one `Read`
  of the underlying connection (TLS / QUIC stream) delivers; the end of the list is EOF.
  `bufio.Reader.Read` returns at most what is buffered from the current chunk
  (`Rd.readOne`), `io.ReadFull` / `binary.Read` loop until they have all bytes or hit EOF
  (`Rd.readFull`).
-/
namespace ScionTime.Ntske

abbrev Byte := Nat

def be16 (a b : Byte) : Nat := a * 256 + b
def u16 (v : Nat) : List Byte := [v / 256 % 256, v % 256]

/-! ## Constants (pinned against Gen in Props/C20.lean) -/
def recEom : Nat := 0
def recNextproto : Nat := 1
def recError : Nat := 2
def recWarning : Nat := 3
def recAead : Nat := 4
def recCookie : Nat := 5
def recServer : Nat := 6
def recPort : Nat := 7
def aesSivCmac256 : Nat := 15
def ntpv4 : Nat := 0
def alpnProto : String := "ntske/1"
def ntpPortIP : Nat := 123
def ntpPortSCION : Nat := 10123
def exporterLabel : String := "EXPORTER-network-time-security"
def c2sContext : List Byte := [0, 0, 0, 15, 0]
def s2cContext : List Byte := [0, 0, 0, 15, 1]
def exportLen : Nat := 32

/-- ntske.Data. `server` holds the bytes of the Go string. -/
structure Data where
  c2s : List Byte := []
  s2c : List Byte := []
  server : List Byte := []
  port : Nat := 0
  cookies : List (List Byte) := []
  algo : Nat := 0
deriving DecidableEq, Repr, Inhabited

/-- Error classes of `ReadData` (`fuel` never occurs: `Props/C08Ntske`). -/
inductive RErr where
  | eof            -- io.EOF
  | ueof           -- io.ErrUnexpectedEOF
  | unrecCritical  -- errReadUnrecognisedCritical (error record, code 0)
  | badRequest     -- errReadBadRequest (code 1)
  | internal       -- errReadInternalServer (code 2)
  | unknownCode    -- errReadUnknown (any other code)
  | critical (t : Nat)  -- "unknown record type t with critical bit set"
  | fuel
deriving DecidableEq, Repr

/-! ## Readers -/

/-- Result of a read primitive on a reader of type `ρ`. -/
inductive Res (ρ : Type) where
  | ok (bs : List Byte) (r : ρ)
  | eof
  | ueof

/-- `bufio.Reader` over a chunked transport: `buf` is what is still buffered from the
    current chunk, `rest` the chunks the transport will deliver. -/
structure Rd where
  buf : List Byte
  rest : List (List Byte)
deriving DecidableEq, Repr

def Rd.all (r : Rd) : List Byte := r.buf ++ r.rest.flatten

/-- `io.ReadFull(reader, p)` with `len p = need`: repeated `Read`s; `acc` is what has been
    collected so far. EOF with nothing read is `io.EOF`, with a partial read
    `io.ErrUnexpectedEOF`; `need = 0` returns at once. Empty chunks (a `Read` returning
    `0, nil`) are skipped. -/
def fill : List (List Byte) → Nat → List Byte → List Byte → Res Rd
  | [], need, acc, buf =>
    if need ≤ buf.length then .ok (acc ++ buf.take need) ⟨buf.drop need, []⟩
    else if (acc ++ buf).isEmpty then .eof else .ueof
  | c :: cs, need, acc, buf =>
    if need ≤ buf.length then .ok (acc ++ buf.take need) ⟨buf.drop need, c :: cs⟩
    else fill cs (need - buf.length) (acc ++ buf) c

def Rd.readFull (r : Rd) (n : Nat) : Res Rd := fill r.rest n [] r.buf

/-- One `bufio.Reader.Read(p)` with `len p = n`, as the *unrepaired* `ReadData` used it for
    cookie bodies: returns what is buffered (refilling once from the transport when the
    buffer is empty), at most `n` bytes; the caller ignored the count, so the `n`-byte slice
    keeps zeros where nothing was read. (Chunks are assumed ≤ 4096 bytes, bufio's buffer.) -/
def Rd.readOneZ (r : Rd) (n : Nat) : Res Rd :=
  let pad (got : List Byte) : List Byte := got ++ List.replicate (n - got.length) 0
  if n = 0 then .ok [] r
  else match r.buf, r.rest with
    | [], [] => .eof
    | [], c :: cs => .ok (pad (c.take n)) ⟨c.drop n, cs⟩
    | b, rest => .ok (pad (b.take n)) ⟨b.drop n, rest⟩

/-- `io.ReadFull` on the unsegmented byte string (specification reader). -/
def flatFull (bs : List Byte) (n : Nat) : Res (List Byte) :=
  if n ≤ bs.length then .ok (bs.take n) (bs.drop n)
  else if bs.isEmpty then .eof else .ueof

/-! ## ReadData -/

/-- One iteration of the record loop either returns (`done`) or continues with the rest of
    the stream and the updated data (`more`). -/
inductive Step (ρ : Type) where
  | done (res : Data × Option RErr)
  | more (r : ρ) (d : Data)

/-- Continue with the bytes read, or return the I/O error with the data as it is. -/
@[inline] def Res.andThen {ρ : Type} (x : Res ρ) (d : Data)
    (k : List Byte → ρ → Step ρ) : Step ρ :=
  match x with
  | .ok b r => k b r
  | .eof => .done (d, some .eof)
  | .ueof => .done (d, some .ueof)

def errorOfCode (code : Nat) : RErr :=
  if code = 0 then .unrecCritical
  else if code = 1 then .badRequest
  else if code = 2 then .internal
  else .unknownCode

/-- Body of the `for` loop of ntske.ReadData: one record. `full` is `binary.Read` /
    `io.ReadFull`, `ck` the primitive used for cookie bodies. The data is returned *as
    mutated so far* together with the error.
    NB (as in the code): the body length field is used only for cookie, server and unknown
    records; next-protocol, AEAD, port and error records read exactly two bytes whatever
    their length field says; a warning record (type 3) is not known to the reader. -/
def step {ρ : Type} (full ck : ρ → Nat → Res ρ) (r : ρ) (d : Data) : Step ρ :=
  (full r 4).andThen d fun h r =>
    let raw := be16 (h.getD 0 0) (h.getD 1 0)
    let blen := be16 (h.getD 2 0) (h.getD 3 0)
    let crit := raw / 32768 % 2 == 1
    let typ := raw % 32768
    if typ = recEom then .done (d, none)
    else if typ = recNextproto then
      (full r 2).andThen d fun _ r => .more r d
    else if typ = recAead then
      (full r 2).andThen d fun b r => .more r { d with algo := be16 (b.getD 0 0) (b.getD 1 0) }
    else if typ = recCookie then
      (ck r blen).andThen d fun b r => .more r { d with cookies := d.cookies ++ [b] }
    else if typ = recServer then
      (full r blen).andThen d fun b r => .more r { d with server := b }
    else if typ = recPort then
      (full r 2).andThen d fun b r => .more r { d with port := be16 (b.getD 0 0) (b.getD 1 0) }
    else if typ = recError then
      (full r 2).andThen d fun b _ => .done (d, some (errorOfCode (be16 (b.getD 0 0) (b.getD 1 0))))
    else if crit then .done (d, some (.critical typ))
    else (full r blen).andThen d fun _ r => .more r d

/-- ntske.ReadData: the record loop (fuel: see `fuelFor`; it never runs out, C08Ntske). -/
def loop {ρ : Type} (full ck : ρ → Nat → Res ρ) : Nat → ρ → Data → Data × Option RErr
  | 0, _, d => (d, some .fuel)
  | f + 1, r, d =>
    match step full ck r d with
    | .done res => res
    | .more r d => loop full ck f r d

/-- Fuel: every iteration consumes at least the 4 header bytes. -/
def fuelFor (n : Nat) : Nat := n + 1

/-- `ReadData(bufio.NewReader(conn), &d)` on a connection delivering `chunks` (repaired
    code: cookie bodies with `io.ReadFull`). -/
def readData (chunks : List (List Byte)) (d : Data) : Data × Option RErr :=
  loop Rd.readFull Rd.readFull (fuelFor chunks.flatten.length) ⟨[], chunks⟩ d

/-- The unrepaired `ReadData` (cookie body with a single `Read`): F7. -/
def readDataOld (chunks : List (List Byte)) (d : Data) : Data × Option RErr :=
  loop Rd.readFull Rd.readOneZ (fuelFor chunks.flatten.length) ⟨[], chunks⟩ d

/-- Specification: the same loop on the unsegmented byte string. -/
def readFlat (bs : List Byte) (d : Data) : Data × Option RErr :=
  loop flatFull flatFull (fuelFor bs.length) bs d

/-- NOT in the code — what a caller gets that lets a `ReadData` call be cut off and then calls
    it again on the same `bufio.Reader` (a read deadline that expires while the transport is
    silent, followed by a retry). `pre` is what the transport had delivered when the first call
    gave up, `post` what it delivers afterwards. `ReadData` is not resumable: the first call
    has consumed all of `pre` (complete records are applied to the data; of the record it was
    in, the header and the part of the body that had arrived are gone) and returns an I/O error
    (the timeout; for the flat reader on `pre` alone: EOF / unexpected EOF); the second call
    starts a fresh record loop on `post` with the data as mutated so far. If the first call
    had already returned (end of message or a refusal within `pre`), that is the result. -/
def readRestart (pre post : List Byte) (d : Data) : Data × Option RErr :=
  match readFlat pre d with
  | (d1, some .eof) => readFlat post d1
  | (d1, some .ueof) => readFlat post d1
  | res => res

/-! ## Record encoding (pack functions) -/

/-- packheader: type with the critical bit, body length truncated to 16 bits. -/
def packHeader (t : Nat) (c : Bool) (bodylen : Nat) : List Byte :=
  u16 (if c then t % 32768 + 32768 else t) ++ u16 (bodylen % 65536)

/-- Records as the senders build them. -/
inductive Rec where
  | nextProto (v : Nat)                 -- NextProto.pack: critical
  | algorithm (algos : List Nat)        -- Algorithm.pack: critical
  | server (addr : List Byte) (crit : Bool)
  | port (p : Nat) (crit : Bool)
  | cookie (c : List Byte)              -- never critical
  | warning (code : Nat)                -- critical
  | error (code : Nat)                  -- critical
  | end_                                -- critical, empty body
deriving DecidableEq, Repr

def Rec.pack : Rec → List Byte
  | .nextProto v => packHeader recNextproto true 2 ++ u16 v
  | .algorithm as => packHeader recAead true (2 * as.length) ++ as.flatMap u16
  | .server a c => packHeader recServer c a.length ++ a
  | .port p c => packHeader recPort c 2 ++ u16 p
  | .cookie c => packHeader recCookie false c.length ++ c
  | .warning code => packHeader recWarning true 2 ++ u16 code
  | .error code => packHeader recError true 2 ++ u16 code
  | .end_ => packHeader recEom true 0

/-- ExchangeMsg.Pack -/
def packMsg (rs : List Rec) : List Byte := rs.flatMap Rec.pack

/-- What a reader that accepts record `r` does to the data (records that stop the reader
    are not covered here). -/
def Rec.apply (d : Data) : Rec → Data
  | .nextProto _ => d
  | .algorithm as => { d with algo := as.headD 0 }
  | .server a _ => { d with server := a }
  | .port p _ => { d with port := p }
  | .cookie c => { d with cookies := d.cookies ++ [c] }
  | _ => d

/-- The client's request (exchangeDataTLS / exchangeDataQUIC). -/
def clientMsg : List Rec := [.nextProto ntpv4, .algorithm [aesSivCmac256], .end_]

/-- core/server newNTSKEMsg: `ip` is `localIP.String()`, `port` is `uint16(localPort)`,
    `cookies` the encoded encrypted cookies that could be produced (8 attempts; failures are
    skipped). No cookie at all is an error. -/
def serverMsg (ip : List Byte) (port : Nat) (cookies : List (List Byte)) : Option (List Rec) :=
  if cookies.isEmpty then none
  else some ([.nextProto ntpv4, .algorithm [aesSivCmac256], .server ip false, .port (port % 65536) false]
             ++ cookies.map .cookie ++ [.end_])

/-! ## Fetcher -/

inductive ExErr where
  | dial                 -- tls.DialWithDialer / SplitHostPort failed
  | noNtske              -- errServerNoNTSKE
  | read (e : RErr)      -- ReadData failed
  | export_              -- ExportKeyingMaterial failed
  | noCookies            -- errNoCookies
  | unknownAlgo          -- errUnknownAlgo
deriving DecidableEq, Repr

/-- Everything the environment contributes to one key exchange (over TLS, or over QUIC on
    SCION when `quic` is set). -/
structure Exchange where
  quic : Bool := false          -- Fetcher.QUIC.Enabled
  dialOk : Bool                 -- connection + handshake succeeded
  host : List Byte              -- host part of conn.RemoteAddr()
  alpn : String                 -- state.NegotiatedProtocol
  stream : List (List Byte)     -- what the peer sends, as the transport segments it
  exportOk : Bool := true
  c2s : List Byte               -- exporter output for the C2S context
  s2c : List Byte               -- exporter output for the S2C context
deriving Repr

/-- dialTLS / dialQUIC: default server = key-exchange host, default port = standard NTP port
    (123 over IP, 10123 over SCION). -/
def dialData (e : Exchange) : Data :=
  { server := e.host, port := if e.quic then ntpPortSCION else ntpPortIP }

/-- The part of `exchangeKeys` that computes the new data, starting from `d0`. The ALPN
    result is checked by dialTLS only; over QUIC the TLS stack itself refuses a handshake
    without the offered protocol (then `dialOk = false`). -/
def exchangeCoreFrom (d0 : Data) (e : Exchange) : Data × Option ExErr :=
  if !e.dialOk then ({}, some .dial)
  else if e.quic = false ∧ e.alpn ≠ alpnProto then ({}, some .noNtske)
  else
    match readData e.stream d0 with
    | (d, some err) => (d, some (.read err))
    | (d, none) =>
      if !e.exportOk then (d, some .export_)
      else
        let d := { d with s2c := e.s2c, c2s := e.c2s }
        if d.cookies.isEmpty then (d, some .noCookies)
        else if d.algo ≠ aesSivCmac256 then (d, some .unknownAlgo)
        else (d, none)

def exchangeCore (e : Exchange) : Data × Option ExErr := exchangeCoreFrom (dialData e) e

/-- Unrepaired QUIC branch (F18): `conn, _, err := dialQUIC(…)` discarded the defaults that
    dialQUIC had computed, so the exchange started from the zero value. -/
def exchangeCoreQUICOld (e : Exchange) : Data × Option ExErr := exchangeCoreFrom {} e

/-- Fetcher.exchangeKeys (repaired): the cached data is assigned only on success. -/
def exchangeKeys (cached : Data) (e : Exchange) : Data × Option ExErr :=
  match exchangeCore e with
  | (d, none) => (d, none)
  | (_, some err) => (cached, some err)

/-- Fetcher.exchangeKeys (unrepaired TLS branch, F8): `ReadData` and `ExportKeys` wrote
    straight into the cached data, so a failing exchange left whatever had been filled in. -/
def exchangeKeysOld (_cached : Data) (e : Exchange) : Data × Option ExErr :=
  if !e.dialOk then ({}, some .dial)
  else if e.alpn ≠ alpnProto then ({}, some .noNtske)
  else
    match readDataOld e.stream (dialData e) with
    | (d, some err) => (d, some (.read err))
    | (d, none) =>
      if !e.exportOk then (d, some .export_)
      else
        let d := { d with s2c := e.s2c, c2s := e.c2s }
        if d.cookies.isEmpty then (d, some .noCookies)
        else if d.algo ≠ aesSivCmac256 then (d, some .unknownAlgo)
        else (d, none)

/-- What `FetchData` returns: `(Data, nil)` or `(Data{}, err)`. -/
inductive FetchOut where
  | ok (d : Data)
  | error (e : ExErr)
deriving DecidableEq, Repr

/-- Result of one `FetchData` call. `exchanged` tells whether a key exchange (a new
    connection) was performed. -/
structure FetchRes where
  cached : Data                 -- f.data afterwards
  out : FetchOut                -- returned (Data, error)
  exchanged : Bool

/-- Fetcher.FetchData, parametrised by the exchange function: re-key iff the pool is empty;
    hand out a copy of the cached data; pop one cookie. -/
def fetchWith (ex : Data → Exchange → Data × Option ExErr) (cached : Data) (e : Exchange) : FetchRes :=
  if cached.cookies.isEmpty then
    match ex cached e with
    | (c, some err) => ⟨c, .error err, true⟩
    | (c, none) => ⟨{ c with cookies := c.cookies.drop 1 }, .ok c, true⟩
  else ⟨{ cached with cookies := cached.cookies.drop 1 }, .ok cached, false⟩

def fetchData := fetchWith exchangeKeys
def fetchDataOld := fetchWith exchangeKeysOld

/-- Variant (seeded change C20-17, and any change of that shape): `FetchData` examines the freshly
    exchanged data *after* `exchangeKeys` has stored it, on the branch that exchanged only;
    `refuse d = some err` is `return Data{}, err` with `f.data` already assigned. The function at
    the pinned commit is the instance `refuse = fun _ => none`. -/
def fetchDataPostCheck (refuse : Data → Option ExErr) (cached : Data) (e : Exchange) : FetchRes :=
  if cached.cookies.isEmpty then
    match exchangeKeys cached e with
    | (c, some err) => ⟨c, .error err, true⟩
    | (c, none) =>
      match refuse c with
      | some err => ⟨c, .error err, true⟩
      | none => ⟨{ c with cookies := c.cookies.drop 1 }, .ok c, true⟩
  else ⟨{ cached with cookies := cached.cookies.drop 1 }, .ok cached, false⟩

/-- Fetcher.StoreCookie -/
def storeCookie (cached : Data) (c : List Byte) : Data :=
  { cached with cookies := cached.cookies ++ [c] }

end ScionTime.Ntske
