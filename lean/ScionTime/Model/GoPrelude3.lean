/-
  Prelude of the leaf translator, eighth generation (harness/extract/leaf8.go): what a function
  does to the world outside its variables, as a value — the actions it performs in order (system
  calls WITH THEIR ARGUMENT VALUES, calls of wrappers that are not translated, goroutine starts) and
  the allocations it makes.  Hand-written, trusted; notes/LEAF.md ("Generation 8") says for each
  construct why the rendering is faithful.

  What the kernel does with a `clock_adjtime` argument is outside the model; the tie theorems are
  about the argument handed over.
-/
import ScionTime.Model.GoPrelude
namespace ScionTime.Go

/-- `unix.Timex` (golang.org/x/sys/unix, linux/amd64): the fields a literal may set; a field a
    literal does not mention is zero, as in Go.  `Time` is the `unix.Timeval{Sec, Usec}` pair
    (the rendering of `unixutil.TimevalFromNsec`'s result: a tuple in field order). -/
structure Timex where
  Modes : UInt32 := 0
  Offset : Int64 := 0
  Freq : Int64 := 0
  Maxerror : Int64 := 0
  Esterror : Int64 := 0
  Status : Int32 := 0
  Constant : Int64 := 0
  Precision : Int64 := 0
  Tolerance : Int64 := 0
  Time : Int64 × Int64 := (0, 0)
  Tick : Int64 := 0
deriving DecidableEq, Repr

/-- one action on the world outside the function's variables -/
inductive SysAction where
  /-- `unix.ClockAdjtime(clockid, &tx)`: the clock id and the whole structure handed to the kernel -/
  | clockAdjtime (clockid : Int32) (tx : Timex)
  /-- the wrapper `sleep(log, d)` of driver/clocks (timerfd + poll; not translated) with its argument -/
  | sleep (d : Int64)
  /-- `go func(…){…}(args…)`: the literal's body is the generated definition `fn`; `args` are the
      identities of the pointer arguments (loggers are dropped) -/
  | spawn (fn : String) (args : List (Option Nat))
deriving DecidableEq, Repr

/-- the world: allocations made so far (the next fresh identity) and the actions performed, oldest first -/
structure World where
  heap : Nat
  acts : List SysAction
deriving DecidableEq, Repr

def World.act (w : World) (a : SysAction) : World := { w with acts := w.acts ++ [a] }

/-- `&T{…}`: a fresh object; its identity has not been handed out before -/
def World.alloc {α : Type} (w : World) (v : α) : World × Option (Ref α) :=
  ({ w with heap := w.heap + 1 }, some { id := w.heap, val := v })

/-! ### byte-slice parameters read at a position (decoders with a position-based loop) -/

/-- `binary.BigEndian.Uint16(b[off:])`: `b[off:]` panics unless `0 ≤ off ≤ len(b)` (slice bounds),
    `Uint16` panics unless two bytes follow (index): `none` in both cases. -/
def beU16At? (b : List UInt8) (off : Int64) : Option UInt16 :=
  if 0 ≤ off.toInt ∧ off.toInt + 2 ≤ b.length then
    some (((b.getD off.toInt.toNat 0).toUInt64.toUInt16 <<< (8 : UInt16)) |||
      ((b.getD (off.toInt.toNat + 1) 0).toUInt64.toUInt16))
  else none

/-- `b[lo:hi]` as a value: the bytes `lo ≤ i < hi`. Go panics unless `0 ≤ lo ≤ hi ≤ cap(b)`; this
    rendering says `none` already for `hi > len(b)` — for `len(b) < hi ≤ cap(b)` Go would instead
    expose bytes beyond the length. The tie theorems of the decoders that use it prove that the
    generated function never takes this branch at all (`hi ≤ len(b)` is checked by the code before),
    so the difference is never observed. The value shares memory with `b` in Go: faithful as long as
    nobody writes `b` while the value lives (callers in /repo pass a buffer made for the call). -/
def subslice? (b : List UInt8) (lo hi : Int64) : Option (List UInt8) :=
  if 0 ≤ lo.toInt ∧ lo.toInt ≤ hi.toInt ∧ hi.toInt ≤ b.length then
    some ((b.drop lo.toInt.toNat).take (hi.toInt.toNat - lo.toInt.toNat))
  else none

/-- `n := copy(dst, src[off:])` for a buffer `dst` made in the function (whole, from its start) and a
    byte-slice parameter `src`: `src[off:]` panics unless `0 ≤ off ≤ len(src)` (`none`); then
    `n = min(len(dst), len(src) - off)` bytes are copied to the front of `dst`. -/
def copyTail? (dst src : List UInt8) (off : Int64) : Option (List UInt8 × Int64) :=
  if 0 ≤ off.toInt ∧ off.toInt ≤ src.length then
    let t := src.drop off.toInt.toNat
    let n := min dst.length t.length
    some (t.take n ++ dst.drop n, Int64.ofNat n)
  else none

/-- ninth generation: `X = append(X, v)` with the SAME slice on both sides, `X` rendered as a list:
    the elements of the result are those of `X` followed by `v`, whether or not Go reallocates. What
    the rendering does not show is the write into the shared backing array when `len < cap`: faithful
    while no other live slice shares `X`'s array beyond `len(X)` (notes/LEAF.md, generation 9). -/
def appendOwn {α : Type} (xs : List α) (v : α) : List α := xs ++ [v]

/-- ninth generation: `n := copy(buf[off:], src)` on a byte-slice PARAMETER `buf`: `buf[off:]` panics
    unless `0 ≤ off ≤ len(buf)` — the high index of `buf[off:]` is `len(buf)` whatever the capacity —,
    then `n = min(len(buf) - off, len(src))` bytes are written at `off`. `src` does not overlap
    `buf` (a field of the receiver or a padding made in the function). -/
def copyAt? (dst : List UInt8) (off : Int64) (src : List UInt8) : Option (List UInt8 × Int64) :=
  if 0 ≤ off.toInt ∧ off.toInt.toNat ≤ dst.length then
    let k := off.toInt.toNat
    let n := min (dst.length - k) src.length
    some (dst.take k ++ src.take n ++ dst.drop (k + n), Int64.ofNat n)
  else none

end ScionTime.Go
