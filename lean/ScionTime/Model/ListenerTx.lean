/-
  Model/ListenerTx.lean — how the NTP listeners obtain and record transmit timestamps:
  the step of `runIPServer` (core/server/server_ip.go) and `runSCIONServer`
  (core/server/server_scion.go: NTP branch, SCMP echo/traceroute branch, forwarding branch) that
  follows every successful `conn.WriteToUDPAddrPort`, `udp.ReadTXTimestamp`
  (net/udp/udp_linux.go), and the kernel side they talk to (the socket's error queue and the
  SOF_TIMESTAMPING_OPT_ID counter), composed with the timestamp store of Model/Server.lean.

  * A `time.Time` is an `Int` count of nanoseconds since the Unix epoch (as in Model/Server);
    `time.Time{}` is `zeroTime`.
  * `Cfg.dropsUnsent = true` is the code after the `fix:` commit for finding F21 (an exchange
    recorded by `handleRequest` whose reply was then not sent stayed on record with the software
    reading `txt0` and was served in interleaved mode as the transmit time of a reply that never
    existed); `dropsUnsent = false` is the code as it was (`codeUnsentOld`).
  * `Cfg.fixed = true` is the code after the `fix:` commit for finding F20 (a transmit timestamp
    that arrives after the 1 ms poll timeout used to be taken for the timestamp of the *next*
    datagram, for the rest of the listener's life); `fixed = false` is the code as it was.
  * `txid` and the kernel's counter are `uint32` in Go / the kernel; here they are `Nat` (the
    comparisons of the code are wrap-around safe — `id != txid`, `int32(id-txid) < 0` — and the
    theorems are about histories of fewer than 2^31 datagrams per socket; recorded assumption).
  * EINTR retries of poll(2)/recvmsg(2) are not modelled (the abstract kernel answer is the
    first one that is not EINTR).

  Core Lean only.
-/
import ScionTime.Model.Server
namespace ScionTime.ListenerTx
open ScionTime.Server ScionTime.Time64

/-! ## (a) `udp.ReadTXTimestamp` -/

/-- `time.Time{}` (January 1, year 1, 00:00 UTC) in nanoseconds since the Unix epoch -/
def zeroTime : Int := -62135596800000000000

/-- the `error` result -/
inductive Err where
  | none
  | sys (errno : Nat)     -- an errno from SyscallConn / RawConn.Read / poll / recvmsg
  | notFound              -- `errTimestampNotFound`
  | unexpectedData        -- `errUnexpectedData`
deriving DecidableEq, Repr

/-- what the control-message walk `timestampFromOOBData` makes of the ancillary data -/
inductive Cmsg where
  | fields (ts : Option Int) (id : Option Nat)  -- walk completed; `tsSet`, `idSet` and the values
  | malformed                                   -- the walk returned `errUnexpectedData`
  | panics                                      -- inconsistent timestamp triple: `panic(...)`
deriving DecidableEq, Repr

/-- answer of `unix.Poll(pollFds, 1)` (first answer that is not EINTR) -/
inductive PollAns where
  | err (e : Nat)         -- poll(2) fails
  | ready (n : Nat)       -- n descriptors ready after at most `pollTimeoutMs`; 0 = timed out
deriving DecidableEq, Repr

/-- answer of `unix.Recvmsg(fd, buf, oob, MSG_ERRQUEUE)` (first answer that is not EINTR) -/
inductive RecvAns where
  | err (e : Nat)
  | msg (n : Nat) (flags : Nat) (hasSrc : Bool) (c : Cmsg)
deriving DecidableEq, Repr

/-- the kernel's answers to one call of `ReadTXTimestamp` -/
inductive Kernel where
  | connErr (e : Nat)                   -- `conn.SyscallConn()` or `sconn.Read` fails (closed socket)
  | sys (p : PollAns) (r : RecvAns)     -- `r` is asked for only when poll reports the descriptor ready
deriving DecidableEq, Repr

/-- `unix.Poll(pollFds, 1 /* timeout */)` -/
def pollTimeoutMs : Nat := 1
/-- `len(pollFds)` -/
def pollFdsLen : Nat := 1
/-- `unix.MSG_ERRQUEUE` -/
def msgErrqueue : Nat := 0x2000

inductive RRes where
  | ret (t : Int) (id : Nat) (err : Err)
  | panic
deriving DecidableEq, Repr

/-- `ReadTXTimestamp(conn)`: every exit of the closure handed to `RawConn.Read` returns `true`
    (done), so one call is exactly one poll of at most 1 ms and at most one recvmsg. -/
def readTX : Kernel → RRes
  | .connErr e => .ret zeroTime 0 (.sys e)
  | .sys (.err e) _ => .ret zeroTime 0 (.sys e)
  | .sys (.ready n) r =>
    if n ≠ pollFdsLen then .ret zeroTime 0 .notFound
    else match r with
      | .err e => .ret zeroTime 0 (.sys e)
      | .msg n flags hasSrc c =>
        if n ≠ 0 then .ret zeroTime 0 .unexpectedData
        else if flags ≠ msgErrqueue then .ret zeroTime 0 .unexpectedData
        else if hasSrc then .ret zeroTime 0 .unexpectedData
        else match c with
          | .malformed => .ret zeroTime 0 .unexpectedData
          | .panics => .panic
          | .fields (some t) (some id) => .ret t id .none
          | .fields _ _ => .ret zeroTime 0 .notFound

/-- the error-queue message that carries transmit timestamp `t` of datagram `id`
    (SOF_TIMESTAMPING_OPT_TSONLY: no payload; SO_EE_ORIGIN_TIMESTAMPING with `ee_data = id`) -/
def stampMsg (id : Nat) (t : Int) : Kernel :=
  .sys (.ready 1) (.msg 0 msgErrqueue false (.fields (some t) (some id)))

/-- nothing on the error queue: poll(2) times out -/
def emptyQueue : Kernel := .sys (.ready 0) (.err 11)

/-! ## (b) the kernel side of a listener socket -/

structure Stamp where
  id : Nat   -- value of the socket's OPT_ID counter when the datagram was sent
  t : Int    -- the transmit timestamp
deriving DecidableEq, Repr

/-- what the kernel does with the transmit timestamp of one datagram -/
inductive KB where
  | intime (t : Int)          -- on the error queue before this iteration's poll gives up
  | never                     -- never delivered (no hardware timestamps on the interface, lost)
  | late (d : Nat) (t : Int)  -- delivered only after this iteration; on the queue when the
                              -- (d+1)-th next datagram is sent on this socket
deriving DecidableEq, Repr

/-- A listener goroutine and its socket: the goroutine's `txid`, the kernel's per-socket
    datagram counter (`sk_tskey`: counts *every* datagram sent on the socket, NTP replies, SCMP
    replies and forwarded packets alike), the error queue (a FIFO, head = oldest) and the
    timestamps still under way. -/
structure LSock where
  txid : Nat
  sent : Nat
  queue : List Stamp
  pending : List (Nat × Stamp)
deriving DecidableEq, Repr

def LSock.init : LSock := ⟨0, 0, [], []⟩

/-- the late timestamps that have arrived by now, and the rest with one send less to wait -/
def arrive : List (Nat × Stamp) → List Stamp × List (Nat × Stamp)
  | [] => ([], [])
  | (d, s) :: l =>
    let r := arrive l
    if d = 0 then (s :: r.1, r.2) else (r.1, (d - 1, s) :: r.2)

/-- `conn.WriteToUDPAddrPort` succeeded: the kernel numbers the datagram, earlier late
    timestamps that have arrived are on the queue in front of this datagram's own. -/
def LSock.send (s : LSock) (kb : KB) : LSock :=
  let a := arrive s.pending
  let id := s.sent
  { s with
    sent := s.sent + 1
    queue := s.queue ++ a.1 ++ (match kb with | .intime t => [⟨id, t⟩] | _ => [])
    pending := a.2 ++ (match kb with | .late d t => [(d, ⟨id, t⟩)] | _ => []) }

/-- the kernel's answer to a `ReadTXTimestamp` on this socket, and the queue afterwards -/
def kernelRead : List Stamp → Kernel × List Stamp
  | [] => (emptyQueue, [])
  | s :: q => (stampMsg s.id s.t, q)

/-! ## (c) the listeners' step after a successful write -/

structure Cfg where
  fixed : Bool        -- with the repair of F20
  scmpReads : Bool    -- the SCMP / forwarding branches read their transmit timestamp too
  dropsUnsent : Bool  -- with the repair of F21: an exchange that `handleRequest` has recorded and
                      -- whose reply is then not sent is taken off the record again
deriving DecidableEq, Repr

/-- the code as it is now -/
def code : Cfg := ⟨true, true, true⟩
/-- the code before the `fix:` commit for F20 -/
def codeOld : Cfg := ⟨false, true, false⟩
/-- the code after the F20 repair and before the `fix:` commit for F21: after `handleRequest` the
    listeners could `continue` without a reply and without `updateTXTimestamp` -/
def codeUnsentOld : Cfg := ⟨true, true, false⟩

/-- Reads of one iteration. Returns the last result `(t, id, err)`, the queue afterwards and
    the number of `ReadTXTimestamp` calls.  Old code: one call.  Repaired code:
    `for err == nil && int32(id-txid) < 0 { txt1, id, err = udp.ReadTXTimestamp(conn) }`
    — a timestamp of an earlier datagram is skipped. -/
def reads (fixed : Bool) (txid : Nat) : List Stamp → (Int × Nat × Err) × List Stamp × Nat
  | [] => ((zeroTime, 0, .notFound), [], 1)
  | s :: q =>
    if fixed && decide (s.id < txid) then
      let r := reads fixed txid q
      (r.1, r.2.1, r.2.2 + 1)
    else ((s.t, s.id, .none), q, 1)

/-- the `if err != nil … else if id != txid … else …` block: `(txt1, txid)` afterwards -/
def decide3 (fixed : Bool) (txid : Nat) (txt0 : Int) (r : Int × Nat × Err) : Int × Nat :=
  if r.2.2 ≠ .none then (txt0, if fixed then txid + 1 else txid)
  else if r.2.1 ≠ txid then (txt0, r.2.1 + 1)
  else (r.1, txid + 1)

structure Post where
  sock : LSock
  txt1 : Int        -- what is handed to `updateTXTimestamp` (NTP branch)
  nreads : Nat      -- `ReadTXTimestamp` calls of this iteration
  dgram : Nat       -- the kernel's number of the datagram just sent (ghost)
deriving DecidableEq, Repr

/-- write + read + bookkeeping of the branches that read their transmit timestamp -/
def sendRead (cfg : Cfg) (s : LSock) (txt0 : Int) (kb : KB) : Post :=
  let s1 := s.send kb
  let r := reads cfg.fixed s.txid s1.queue
  let d := decide3 cfg.fixed s.txid txt0 r.1
  { sock := { s1 with queue := r.2.1, txid := d.2 }, txt1 := d.1, nreads := r.2.2, dgram := s.sent }

/-- a branch that writes without reading (what the SCMP branch would be with
    `scmpReads = false`) -/
def sendOnly (s : LSock) (kb : KB) : Post :=
  { sock := s.send kb, txt1 := 0, nreads := 0, dgram := s.sent }

/-! ## (d) whole-listener histories -/

/-- One datagram arriving at a listener socket. `sk` is the listener socket (one of the
    SO_REUSEPORT group; one goroutine each), `cl` the client identity (Model/ClientId). -/
inductive Ev where
  /-- a valid NTP request: `krx` the kernel receive timestamp (`none`: `TimestampFromOOBData`
      failed and `rxt = timebase.Now() = nowRx`), `now` the clock reading inside `handleRequest`,
      `kb` what the kernel does with the reply's transmit timestamp -/
  | ntp (sk cl : Nat) (req : Req) (krx : Option Int) (nowRx now : Int) (kb : KB)
  /-- SCION only: an SCMP echo / traceroute request that is answered, or a packet that is
      forwarded: a datagram is written, the store is not touched -/
  | aux (sk : Nat) (kb : KB)
  /-- a datagram that is not answered (any `continue` before `handleRequest`) -/
  | drop (sk : Nat)
  /-- a valid NTP request that `handleRequest` has answered and **recorded**, after which the
      iteration ends without a datagram being written: `scionLayer.Path.Reverse()` fails
      (runSCIONServer reverses the path *after* `handleRequest`; an irreversible path — e.g. a
      one-hop path whose second hop field is still empty — is under the sender's control),
      `conn.WriteToUDPAddrPort` fails or writes short (both listeners), no cookie could be
      encrypted (`!addedCookie`, both listeners). No datagram, so the socket is not touched and no
      transmit timestamp will ever exist. Before F21's repair: plain `continue`, the exchange
      stays on record as (rx, software `txt0`). Repaired: `updateTXTimestamp(clientID, rxt, &txt0)`
      first — the value recorded is the value handed over, so the store drops the exchange. -/
  | unsent (sk cl : Nat) (req : Req) (krx : Option Int) (nowRx now : Int)
deriving Repr

structure World where
  store : State
  socks : Nat → LSock

def World.init : World := ⟨Server.init, fun _ => LSock.init⟩

def setSock (f : Nat → LSock) (k : Nat) (s : LSock) : Nat → LSock := fun i => if i = k then s else f i

/-- what an iteration did (ghost record for the theorems and the driver) -/
structure Out where
  sk : Nat
  cl : Nat
  sent : Bool                 -- a datagram was written
  reply : Option Reply        -- NTP reply
  rxt : Int                   -- `rxt` after `handleRequest`
  txt0 : Int                  -- software transmit time (`txt0`)
  txt1 : Int                  -- value handed to `updateTXTimestamp`
  utx : Int                   -- `*txt` after `updateTXTimestamp`
  own : Option Int            -- kernel transmit timestamp of this datagram, if delivered in time
  dgram : Nat
  nreads : Nat
  unsent : Bool := false      -- `handleRequest` ran (rxt, txt0 are its), then nothing was written
deriving Repr

def Out.none (sk : Nat) : Out :=
  { sk := sk, cl := 0, sent := false, reply := Option.none, rxt := 0, txt0 := 0, txt1 := 0, utx := 0,
    own := Option.none, dgram := 0, nreads := 0 }

def KB.own : KB → Option Int
  | .intime t => some t
  | _ => Option.none

/-- one iteration of the receive loop -/
def stepEv (cfg : Cfg) (cap icap : Nat) (w : World) : Ev → World × Out
  | .ntp sk cl req krx nowRx now kb =>
    let rxt0 := krx.getD nowRx
    let hr := handleRequest cap icap w.store cl req rxt0 now
    let p := sendRead cfg (w.socks sk) hr.txt kb
    let u := updateTX hr.st cl hr.rxt p.txt1
    ({ store := u.1, socks := setSock w.socks sk p.sock },
     { sk := sk, cl := cl, sent := true, reply := some hr.reply, rxt := hr.rxt, txt0 := hr.txt,
       txt1 := p.txt1, utx := u.2, own := kb.own, dgram := p.dgram, nreads := p.nreads })
  | .aux sk kb =>
    let p := if cfg.scmpReads then sendRead cfg (w.socks sk) 0 kb else sendOnly (w.socks sk) kb
    ({ w with socks := setSock w.socks sk p.sock },
     { Out.none sk with sent := true, own := kb.own, dgram := p.dgram, nreads := p.nreads })
  | .drop sk => (w, Out.none sk)
  | .unsent sk cl req krx nowRx now =>
    let rxt0 := krx.getD nowRx
    let hr := handleRequest cap icap w.store cl req rxt0 now
    let u := if cfg.dropsUnsent then updateTX hr.st cl hr.rxt hr.txt else (hr.st, hr.txt)
    ({ w with store := u.1 },
     { Out.none sk with cl := cl, rxt := hr.rxt, txt0 := hr.txt, txt1 := hr.txt, utx := u.2, unsent := true })

def runEvs (cfg : Cfg) (cap icap : Nat) : World → List Ev → World × List Out
  | w, [] => (w, [])
  | w, e :: es =>
    let r := stepEv cfg cap icap w e
    let rs := runEvs cfg cap icap r.1 es
    (rs.1, r.2 :: rs.2)

end ScionTime.ListenerTx
