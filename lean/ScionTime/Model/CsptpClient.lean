/-
  Model of one iteration of the receive loop of core/client/client_csptp_ip.go
  (CSPTPClientIP.MeasureClockOffset): what the client does with ONE received datagram.

  The client reuses one buffer of capacity `MaxMessageLength` (98): `buf = buf[:n]` and then
  decodes the header from `buf[:44]` — a re-slice within the capacity, so for `n < 44` the
  tail of the "header" is whatever the buffer held before (the client's own request).  The
  model therefore takes the whole 98-byte buffer content after the read and `n`.
  `fixed = false` is the function at the pinned commit (finding F17).
-/
import ScionTime.Model.CsptpCodec
import ScionTime.Model.CsptpConv
namespace ScionTime.CsptpClient
open ScionTime.Wire ScionTime.Csptp

inductive Verdict where
  | retry (why : String)        -- `continue` (or return the error when retries are exhausted)
  | acceptSync
  | acceptFollowUp
  | panicSlice                  -- Go runtime: slice bounds out of range [44:n]
deriving DecidableEq, Repr

def messageTypeSync : Nat := 0
def messageTypeFollowUp : Nat := 8
def tlvTypeOrganizationExtension : Nat := 3
def orgIDMeinberg : Nat := 0xEC4670
def orgSubTypeResponse : Nat := 0x526573

/-- one datagram of length `n` read into the buffer whose 98 bytes are now `buf`;
    `fromEvent` / `fromGeneral`: the source is the server's port 319 / 320; `seq`: the
    client's current sequence id. -/
def onDatagram (fixed : Bool) (buf : List Nat) (n : Nat) (fromEvent fromGeneral : Bool) (seq : Nat) : Verdict :=
  if fixed && n < minMessageLength then .retry "short" else
  match decodeMessage (buf.take minMessageLength) with
  | .panic _ => .panicSlice
  | .err _ => .retry "decode"
  | .ok msg =>
    if n ≠ msg.messageLength then .retry "length" else
    if msg.sequenceID ≠ seq then .retry "sequence" else
    if msg.sdoIDMessageType = messageTypeSync then
      if !fromEvent then .retry "source" else
      if n - minMessageLength ≠ 0 then .retry "sync-length" else .acceptSync
    else if msg.sdoIDMessageType = messageTypeFollowUp then
      if !fromGeneral then .retry "source" else
      if n < minMessageLength then .panicSlice else    -- buf[44:] with len(buf) = n
      match decodeResponseTLV ((buf.take n).drop minMessageLength) with
      | .panic _ => .panicSlice
      | .err _ => .retry "tlv-decode"
      | .ok t =>
        if t.type ≠ tlvTypeOrganizationExtension ∨ t.organizationID ≠ orgIDMeinberg ∨
            t.organizationSubType ≠ orgSubTypeResponse then .retry "tlv-kind" else
        if n - minMessageLength ≠ encodedTLVLength t.flagField then .retry "tlv-length" else .acceptFollowUp
    else .retry "type"

/-! ### after the loop: the evaluation of a complete Sync / Follow_Up pair

`MeasureClockOffset` from `t0 := cTxTime0` to `offset = clockOffset`: which timestamps and
corrections the client feeds to `csptp.C2SDelay / S2CDelay / ClockOffset / MeanPathDelay`
(Model/CsptpConv.lean), and how it treats the announced UTC offset.  `cTxTime0` (kernel TX
timestamp of the client's Sync) and `cRxTime0` (kernel RX timestamp of the server's Sync) are
inputs; times are `Int` nanoseconds, durations `Int64` (wrapping), as in Model/CsptpConv.lean. -/

/-- `csptp.FlagCurrentUTCOffsetValid = 1 << 2` -/
def flagCurrentUTCOffsetValid : Nat := 4

/-- a decoded `csptp.Timestamp` (seconds as the value of the six bytes) as the argument type of
    `CsptpConv.timeFromTimestamp` -/
def convTimestamp (ts : Csptp.Timestamp) : CsptpConv.Timestamp :=
  { seconds := CsptpConv.secBytes ts.seconds, ns := ts.nanoseconds }

structure Evaluation where
  timestamp : Int          -- returned `timestamp` (= cRxTime0)
  clockOffset : Int64      -- returned `offset`
  c2sDelay : Int64         -- logged "C2S delay"
  s2cDelay : Int64         -- logged "S2C delay"
  meanPathDelay : Int64    -- logged "mean path delay"
  utcCorr : Int64
deriving DecidableEq, Repr

/-- `utcCorr`: `int64(resptlv.UTCOffset) * time.Second.Nanoseconds()` if the Follow_Up's flag field
    has `FlagCurrentUTCOffsetValid`, else 0 -/
def utcCorrection (flagField : Nat) (utcOffset : Int) : Int64 :=
  if flagField &&& flagCurrentUTCOffsetValid = flagCurrentUTCOffsetValid
  then Int64.ofInt (utcOffset * 1000000000) else 0

/-- `t3Corr`: the correction fields of both response messages, converted separately, added -/
def t3Correction (respmsg0 respmsg1 : Message) : Int64 :=
  CsptpConv.durationFromTimeInterval (Int64.ofInt respmsg0.correctionField) +
    CsptpConv.durationFromTimeInterval (Int64.ofInt respmsg1.correctionField)

/-- the tail of `MeasureClockOffset` -/
def evaluate (cTxTime0 cRxTime0 : Int) (respmsg0 respmsg1 : Message) (resptlv : ResponseTLV) : Evaluation :=
  let t0 := cTxTime0
  let t1 := CsptpConv.timeFromTimestamp (convTimestamp resptlv.requestIngressTimestamp)
  let t1Corr := CsptpConv.durationFromTimeInterval (Int64.ofInt resptlv.requestCorrectionField)
  let t2 := CsptpConv.timeFromTimestamp (convTimestamp respmsg1.timestamp)
  let t3 := cRxTime0
  let t3Corr := t3Correction respmsg0 respmsg1
  let utcCorr := utcCorrection respmsg1.flagField resptlv.utcOffset
  { timestamp := cRxTime0
    clockOffset := CsptpConv.clockOffset t0 t1 t2 t3 t1Corr t3Corr
    c2sDelay := CsptpConv.c2sDelay t0 t1 t1Corr utcCorr
    s2cDelay := CsptpConv.s2cDelay t2 t3 t3Corr utcCorr
    meanPathDelay := CsptpConv.meanPathDelay t0 t1 t2 t3 t1Corr t3Corr
    utcCorr := utcCorr }

/-- the Go statements `evaluate` transcribes (from `t0 := cTxTime0` to the end of the function, log
    calls left out, whitespace normalised); pinned to the source by Props/C18Client.lean -/
def evaluateSource : List String :=
  ["t0 := cTxTime0",
   "t1 := csptp.TimeFromTimestamp(resptlv.RequestIngressTimestamp)",
   "t1Corr := csptp.DurationFromTimeInterval(resptlv.RequestCorrectionField)",
   "t2 := csptp.TimeFromTimestamp(respmsg1.Timestamp)",
   "t3 := cRxTime0",
   "t3Corr := csptp.DurationFromTimeInterval(respmsg0.CorrectionField) + csptp.DurationFromTimeInterval(respmsg1.CorrectionField)",
   "var utcCorr time.Duration",
   "if respmsg1.FlagField&csptp.FlagCurrentUTCOffsetValid == csptp.FlagCurrentUTCOffsetValid { utcCorr = time.Duration(int64(resptlv.UTCOffset) * time.Second.Nanoseconds()) }",
   "c2sDelay := csptp.C2SDelay(t0, t1, t1Corr, utcCorr)",
   "s2cDelay := csptp.S2CDelay(t2, t3, t3Corr, utcCorr)",
   "clockOffset := csptp.ClockOffset(t0, t1, t2, t3, t1Corr, t3Corr)",
   "meanPathDelay := csptp.MeanPathDelay(t0, t1, t2, t3, t1Corr, t3Corr)",
   "timestamp = cRxTime0",
   "offset = clockOffset",
   "c.sequenceID++",
   "return"]

/-- One complete exchange as recorded on the wire: the server's Sync (from port 319) and
    Follow_Up (from port 320) datagrams, each put through the loop body (`onDatagram`, repaired
    function), then `evaluate`.  `Except.error`: the verdict that kept the pair incomplete. -/
def evaluateDatagrams (cTxTime0 cRxTime0 : Int) (sync fu : List Nat) (seq : Nat) : Except String Evaluation :=
  match onDatagram true sync sync.length true false seq, onDatagram true fu fu.length false true seq with
  | .acceptSync, .acceptFollowUp =>
    match decodeMessage (sync.take minMessageLength), decodeMessage (fu.take minMessageLength),
          decodeResponseTLV (fu.drop minMessageLength) with
    | .ok m0, .ok m1, .ok tlv => .ok (evaluate cTxTime0 cRxTime0 m0 m1 tlv)
    | _, _, _ => .error "decode"
  | .acceptSync, v => .error s!"follow-up:{repr v}"
  | v, _ => .error s!"sync:{repr v}"

end ScionTime.CsptpClient
