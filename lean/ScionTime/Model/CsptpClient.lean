/-
  Model of one iteration of the receive loop of core/client/client_csptp_ip.go
  (CSPTPClientIP.MeasureClockOffset): what the client does with ONE received datagram.

  The client reuses one buffer of capacity `MaxMessageLength` (98): `buf = buf[:n]` and then
  decodes the header from `buf[:44]` — a re-slice within the capacity, so for `n < 44` the
  tail of the "header" is whatever the buffer held before (the client's own request).  The
  model therefore takes the whole 98-byte buffer content after the read and `n`.
  `fixed = false` is the function at the pinned commit (finding F17).
-/
import ScionTime.Model.CsptpCodec
namespace ScionTime.CsptpClient
open ScionTime.Wire ScionTime.Csptp

inductive Verdict where
  | retry (why : String)        -- `continue` (or return the error when retries are exhausted)
  | acceptSync
  | acceptFollowUp
  | panicSlice                  -- Go runtime: slice bounds out of range [44:n]
deriving DecidableEq, Repr

def messageTypeSync : Nat := 0
def messageTypeFollowUp : Nat := 8
def tlvTypeOrganizationExtension : Nat := 3
def orgIDMeinberg : Nat := 0xEC4670
def orgSubTypeResponse : Nat := 0x526573

/-- one datagram of length `n` read into the buffer whose 98 bytes are now `buf`;
    `fromEvent` / `fromGeneral`: the source is the server's port 319 / 320; `seq`: the
    client's current sequence id. -/
def onDatagram (fixed : Bool) (buf : List Nat) (n : Nat) (fromEvent fromGeneral : Bool) (seq : Nat) : Verdict :=
  if fixed && n < minMessageLength then .retry "short" else
  match decodeMessage (buf.take minMessageLength) with
  | .panic _ => .panicSlice
  | .err _ => .retry "decode"
  | .ok msg =>
    if n ≠ msg.messageLength then .retry "length" else
    if msg.sequenceID ≠ seq then .retry "sequence" else
    if msg.sdoIDMessageType = messageTypeSync then
      if !fromEvent then .retry "source" else
      if n - minMessageLength ≠ 0 then .retry "sync-length" else .acceptSync
    else if msg.sdoIDMessageType = messageTypeFollowUp then
      if !fromGeneral then .retry "source" else
      if n < minMessageLength then .panicSlice else    -- buf[44:] with len(buf) = n
      match decodeResponseTLV ((buf.take n).drop minMessageLength) with
      | .panic _ => .panicSlice
      | .err _ => .retry "tlv-decode"
      | .ok t =>
        if t.type ≠ tlvTypeOrganizationExtension ∨ t.organizationID ≠ orgIDMeinberg ∨
            t.organizationSubType ≠ orgSubTypeResponse then .retry "tlv-kind" else
        if n - minMessageLength ≠ encodedTLVLength t.flagField then .retry "tlv-length" else .acceptFollowUp
    else .retry "type"

end ScionTime.CsptpClient
