/-
  Model of net/ntp/ntp.go: Packet, EncodePacket, DecodePacket, the LVM accessors and setters
  (with their panics), and of net/ntp/validation.go: ValidateRequest,
  ValidateResponseMetadata.

  Bytes and unsigned fields are `Nat` with explicit range predicates; `Poll`/`Precision`
  (int8) are `Int`.  Core Lean only.
-/
import ScionTime.Model.WireFields
namespace ScionTime.NtpPacket
open ScionTime.Wire

/-- `PacketLen` -/
def packetLen : Nat := 48

structure Time32 where
  seconds : Nat   -- uint16
  fraction : Nat  -- uint16
deriving Repr, DecidableEq

structure Time64 where
  seconds : Nat   -- uint32
  fraction : Nat  -- uint32
deriving Repr, DecidableEq

/-- `ntp.Packet` -/
structure Packet where
  lvm : Nat              -- uint8
  stratum : Nat          -- uint8
  poll : Int             -- int8
  precision : Int        -- int8
  rootDelay : Time32
  rootDispersion : Time32
  referenceID : Nat      -- uint32
  referenceTime : Time64
  originTime : Time64
  receiveTime : Time64
  transmitTime : Time64
deriving Repr, DecidableEq

/-- every field is within the range of its Go type -/
def Packet.Valid (p : Packet) : Prop :=
  p.lvm < 256 ∧ p.stratum < 256 ∧ (-128 ≤ p.poll ∧ p.poll ≤ 127) ∧
  (-128 ≤ p.precision ∧ p.precision ≤ 127) ∧
  p.rootDelay.seconds < 65536 ∧ p.rootDelay.fraction < 65536 ∧
  p.rootDispersion.seconds < 65536 ∧ p.rootDispersion.fraction < 65536 ∧
  p.referenceID < 4294967296 ∧
  p.referenceTime.seconds < 4294967296 ∧ p.referenceTime.fraction < 4294967296 ∧
  p.originTime.seconds < 4294967296 ∧ p.originTime.fraction < 4294967296 ∧
  p.receiveTime.seconds < 4294967296 ∧ p.receiveTime.fraction < 4294967296 ∧
  p.transmitTime.seconds < 4294967296 ∧ p.transmitTime.fraction < 4294967296

instance (p : Packet) : Decidable p.Valid := by unfold Packet.Valid; infer_instance

/-- byte widths of the header fields in wire order (sum 48) -/
def layout : List Nat := [1, 1, 1, 1, 2, 2, 2, 2, 4, 4, 4, 4, 4, 4, 4, 4, 4]

/-- the packet's fields in wire order, as unsigned values (`byte(pkt.Poll)` is two's complement) -/
def toFields (p : Packet) : List Nat :=
  [p.lvm, p.stratum, toU 8 p.poll, toU 8 p.precision,
   p.rootDelay.seconds, p.rootDelay.fraction, p.rootDispersion.seconds, p.rootDispersion.fraction,
   p.referenceID,
   p.referenceTime.seconds, p.referenceTime.fraction, p.originTime.seconds, p.originTime.fraction,
   p.receiveTime.seconds, p.receiveTime.fraction, p.transmitTime.seconds, p.transmitTime.fraction]

def zeroPacket : Packet :=
  ⟨0, 0, 0, 0, ⟨0, 0⟩, ⟨0, 0⟩, 0, ⟨0, 0⟩, ⟨0, 0⟩, ⟨0, 0⟩, ⟨0, 0⟩⟩

def ofFields : List Nat → Packet
  | [a, b, c, d, e, f, g, h, i, j, k, l, m, n, o, p, q] =>
    ⟨a, b, ofU 8 c, ofU 8 d, ⟨e, f⟩, ⟨g, h⟩, i, ⟨j, k⟩, ⟨l, m⟩, ⟨n, o⟩, ⟨p, q⟩⟩
  | _ => zeroPacket

/-- `EncodePacket(b *[]byte, pkt)`: whatever the capacity of `*b` (a new slice is made when it
    is below 48), afterwards `*b` is exactly the 48 header bytes. Never panics. -/
def encodePacket (p : Packet) : List Nat := encodeFields layout (toFields p)

/-- `DecodePacket(pkt, b)`: `errUnexpectedPacketSize` below 48 bytes; otherwise reads the 48
    header bytes (with Go's checked indexing) and ignores the rest. -/
def decodePacket (b : List Nat) : Outcome Packet :=
  if b.length < packetLen then .err "size"
  else match readFields layout b with
    | .ok vs => .ok (ofFields vs)
    | .err e => .err e
    | .panic c => .panic c

/-- `LeapIndicator()`: `(p.LVM >> 6) & 0b11` -/
def leapIndicator (lvm : Nat) : Nat := (lvm >>> 6) &&& 3
/-- `Version()`: `(p.LVM >> 3) & 0b111` -/
def version (lvm : Nat) : Nat := (lvm >>> 3) &&& 7
/-- `Mode()`: `p.LVM & 0b111` -/
def mode (lvm : Nat) : Nat := lvm &&& 7

/-- `SetLeapIndicator(l)` (uint8 arithmetic: the shift is reduced mod 256) -/
def setLeapIndicator (lvm l : Nat) : Outcome Nat :=
  if l &&& 3 ≠ l then .panic "explicit:unexpected_NTP_leap_indicator_value"
  else .ok ((lvm &&& 0x3f) ||| ((l <<< 6) % 256))

/-- `SetVersion(v)` -/
def setVersion (lvm v : Nat) : Outcome Nat :=
  if v &&& 7 ≠ v then .panic "explicit:unexpected_NTP_version_value"
  else .ok ((lvm &&& 0xc7) ||| ((v <<< 3) % 256))

/-- `SetMode(m)` -/
def setMode (lvm m : Nat) : Outcome Nat :=
  if m &&& 7 ≠ m then .panic "explicit:unexpected_NTP_mode_value"
  else .ok ((lvm &&& 0xf8) ||| m)

/-- constants of ntp.go -/
def leapIndicatorNoWarning : Nat := 0
def leapIndicatorUnknown : Nat := 3
def versionMin : Nat := 1
def versionMax : Nat := 4
def modeReserved0 : Nat := 0
def modeClient : Nat := 3
def modeServer : Nat := 4

/-- `ValidateRequest(req, srcPort)` — only the first header byte matters; `srcPort` is unused
    by the code. `true` = `nil` error. -/
def validateRequest (lvm : Nat) : Bool :=
  let li := leapIndicator lvm
  if li ≠ leapIndicatorNoWarning ∧ li ≠ leapIndicatorUnknown then false
  else
    let vn := version lvm
    if vn < versionMin ∨ versionMax < vn then false
    else
      let m := mode lvm
      if (vn = 1 ∧ m ≠ modeReserved0) ∨ (vn ≠ 1 ∧ m ≠ modeClient) then false
      else true

/-- `ValidateResponseMetadata(resp)` -/
def validateResponseMetadata (lvm stratum : Nat) : Bool :=
  if leapIndicator lvm = leapIndicatorUnknown then false
  else if version lvm ≠ 3 ∧ version lvm ≠ 4 then false
  else if mode lvm ≠ modeServer then false
  else if stratum = 0 ∨ stratum > 15 then false
  else true

end ScionTime.NtpPacket
