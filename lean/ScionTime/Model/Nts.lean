/-
  Model of net/nts/nts.go (whole file) and of the NTS branch of the NTP listeners
  (core/server/server_ip.go / server_scion.go: decode, first cookie, cookie decode/decrypt,
  ProcessRequest, one fresh cookie per cookie/placeholder, NewResponsePacket, EncodePacket).

  Conventions: see Cookies.lean. The encoder writes into a buffer of `cap` bytes
  (`MaxPacketLen` for `EncodePacket`, the exact plaintext size for `NewResponsePacket`):
  all writes are sequential, so the buffer is modelled by the bytes written so far
  (`out`, `pos = out.length`); `putHdr` panics `index` where `PutUint16` would, `copyTrunc`
  truncates silently like Go's `copy`.

  A flag selects the code version: `true` = after the `fix:` commits, `false` = the pinned
  commit (the `…Old` definitions).
-/
import ScionTime.Model.Cookies
namespace ScionTime.Nts

def maxPacketLen : Nat := 1024
def numStoredCookies : Nat := 8
def ntpPacketLen : Nat := 48
def extUniqueIdentifier : Nat := 0x104
def extCookie : Nat := 0x204
def extCookiePlaceholder : Nat := 0x304
def extAuthenticator : Nat := 0x404

/-- `(n + 3) & ^3` -/
def pad4 (n : Nat) : Nat := (n + 3) / 4 * 4

/-- `maxNumCookies(uidLen, cookieLen)` (added by the F6 fix): number of cookie extension
    fields that fit into `MaxPacketLen` next to the NTP header, a unique identifier and an
    authenticator (4 + 4 + 16-byte nonce + 16-byte tag). -/
def maxNumCookies (uidLen cookieLen : Nat) : Nat :=
  (maxPacketLen - ntpPacketLen - (4 + pad4 uidLen) - 40) / (4 + pad4 cookieLen)

/-- encode-side view of `nts.Packet` -/
structure Packet where
  uid : Bytes
  cookies : List Bytes
  placeholders : List Bytes
  key : Bytes
  pt : Bytes
deriving DecidableEq, Repr

/-- decode-side view of `nts.Packet` (placeholders carry no data after `unpack`). -/
structure Decoded where
  uid : Bytes := []
  cookies : List Bytes := []
  nph : Nat := 0
  nonce : Bytes := []
  ct : Bytes := []
  pos : Nat := 0
deriving DecidableEq, Repr

/-! ### encoding -/

/-- `extHdr.pack` (and the nonce/ciphertext length pair of `Authenticator.pack`): two
    `PutUint16` at `pos`, `pos+2`; index panic unless 4 bytes are left. -/
def putHdr (cap : Nat) (out : Bytes) (t l : Nat) : Res Bytes :=
  if cap - out.length < 4 then .panic .index else .ok (out ++ be16 t ++ be16 l)

/-- `n := copy(buf[pos:], src); pos += n` -/
def copyTrunc (cap : Nat) (out src : Bytes) : Bytes := out ++ src.take (cap - out.length)

/-- `Cookie.pack` / `CookiePlaceholder.pack` / body of `UniqueIdentifier.pack` -/
def packValue (cap t : Nat) (out v : Bytes) : Res Bytes := do
  let newlen := pad4 v.length
  let out ← putHdr cap out t ((4 + newlen % 65536) % 65536)
  pure (copyTrunc cap (copyTrunc cap out v) (zeros (newlen - v.length)))

/-- `UniqueIdentifier.pack` -/
def packUid (cap : Nat) (out id : Bytes) : Res Bytes :=
  if id.length < 32 then .err .shortUid else packValue cap extUniqueIdentifier out id

/-- extension type written by `CookiePlaceholder.pack`: `extCookie` at the pinned commit (F5). -/
def phType (fixed : Bool) : Nat := if fixed then extCookiePlaceholder else extCookie

def packList (cap t : Nat) : List Bytes → Bytes → Res Bytes
  | [], out => .ok out
  | c :: cs, out => packValue cap t out c >>= packList cap t cs

/-- `Authenticator.pack`: `NewAEAD`, nonce from `crypto/rand`, seal with `buf[:pos]` as
    associated data, header, lengths, nonce, ciphertext (each padded to 4). -/
def packAuth (A : AEAD) (cap : Nat) (out key pt nonce : Bytes) : Res Bytes :=
  if !keyOk key then .err .keySize else do
    let nl := nonce.length % 65536
    let npad := (65536 - nl) % 65536 % 4
    let ct ← sealC A key nonce pt (some out)
    let cl := ct.length % 65536
    let cpad := (65536 - cl) % 65536 % 4
    let out ← putHdr cap out extAuthenticator ((8 + nl + npad + cl + cpad) % 65536)
    let out ← putHdr cap out nl cl
    pure (copyTrunc cap (copyTrunc cap (copyTrunc cap (copyTrunc cap out nonce) (zeros npad)) ct) (zeros cpad))

/-- `EncodePacket` turns every pack error into `panic(err)`. -/
def errToPanic {α : Type} : Res α → Res α
  | .err .shortUid => .panic .shortUid
  | .err .keySize => .panic .keySize
  | r => r

/-- `EncodePacket(&b, &pkt)` for `len(b) == 48`; `nonce` = the 16 bytes `Authenticator.pack` draws. -/
def encodePacketG (fixed : Bool) (A : AEAD) (hdr : Bytes) (p : Packet) (nonce : Bytes) : Res Bytes :=
  if hdr.length ≠ ntpPacketLen then .panic .header else
  errToPanic (do
    let out ← packUid maxPacketLen hdr p.uid
    let out ← packList maxPacketLen extCookie p.cookies out
    let out ← packList maxPacketLen (phType fixed) p.placeholders out
    packAuth A maxPacketLen out p.key p.pt nonce)

def encodePacket := encodePacketG true
def encodePacketOld := encodePacketG false

/-- length of a successfully encoded packet (no truncation): header, unique identifier,
    cookie and placeholder fields, authenticator with a `ctLen`-byte ciphertext. -/
def encodedLen (uidLen : Nat) (fieldLens : List Nat) (ctLen : Nat) : Nat :=
  ntpPacketLen + (4 + pad4 uidLen) + (fieldLens.map fun c => 4 + pad4 c).sum + (8 + 16 + pad4 ctLen)

/-! ### decoding -/

/-- `Authenticator.unpack` on `body = buf[pos:]` (after the 4-byte header). The nonce padding is
    not skipped and nothing is checked against the field length — as in the Go code. -/
def unpackAuth (body : Bytes) : Res (Bytes × Bytes) :=
  match body with
  | n1 :: n0 :: c1 :: c0 :: r =>
    let nl := u16 n1 n0
    let cl := u16 c1 c0
    .ok (copyN nl r, copyN cl (r.drop (min nl r.length)))
  | _ => .panic .index

/-- value length `eh.Length - 4` in uint16 arithmetic -/
def valueLen (l : Nat) : Nat := (l + 65536 - 4) % 65536

/-- The loop of `DecodePacket` over `rest = b[pos:]`, `total = len(b)`. Result: (foundUniqueID,
    foundAuthenticator, packet). `chk = true`: fields with `Length < 4` or reaching beyond the
    buffer are rejected (F2 fix). `chk = false`: `pos += Length` with `Length = 0` never
    advances: `hang` (with `Length` 1..3 the walk continues misaligned, as the code does). -/
def decLoop (chk : Bool) (total : Nat) : Nat → Bytes → Bool → Decoded → Res (Bool × Bool × Decoded)
  | 0, _, _, _ => .hang
  | fuel + 1, rest, fu, d =>
    if rest.length < 28 then .ok (fu, false, d) else
    match rest with
    | a :: b :: c :: e :: body =>
      let t := u16 a b
      let l := u16 c e
      if chk && (l < 4 || l > rest.length) then .err .extLen
      else if t = extAuthenticator then
        match unpackAuth body with
        | .ok (nonce, ct) => .ok (fu, true, { d with nonce := nonce, ct := ct, pos := total - rest.length })
        | .err x => .err x | .panic p => .panic p | .hang => .hang
      else if l = 0 then .hang
      else if t = extUniqueIdentifier then
        decLoop chk total fuel (rest.drop l) true { d with uid := copyN (valueLen l) body }
      else if t = extCookie then
        decLoop chk total fuel (rest.drop l) fu { d with cookies := d.cookies ++ [copyN (valueLen l) body] }
      else if t = extCookiePlaceholder then
        decLoop chk total fuel (rest.drop l) fu { d with nph := d.nph + 1 }
      else decLoop chk total fuel (rest.drop l) fu d
    | _ => .panic .index

/-- `DecodePacket(&pkt, b)` -/
def decodePacketG (chk : Bool) (b : Bytes) : Res Decoded :=
  match decLoop chk b.length (b.length + 1) (b.drop ntpPacketLen) false {} with
  | .ok (fu, fa, d) =>
    if !fu then .err .noUid else if !fa then .err .noAuth else .ok d
  | .err e => .err e | .panic p => .panic p | .hang => .hang

def decodePacket := decodePacketG true
def decodePacketOld := decodePacketG false

/-- `(*Packet).FirstCookie` -/
def firstCookie (d : Decoded) : Res Bytes :=
  match d.cookies with
  | c :: _ => .ok c
  | [] => .err .noCookies

/-- the walk of `authenticate` over the decrypted plaintext: cookie fields are appended to
    `pkt.Cookies`, everything else skipped. Same length handling as `decLoop`. -/
def ptLoop (chk : Bool) : Nat → Bytes → List Bytes → Res (List Bytes)
  | 0, _, _ => .hang
  | fuel + 1, rest, cs =>
    if rest.length < 28 then .ok cs else
    match rest with
    | a :: b :: c :: e :: body =>
      let t := u16 a b
      let l := u16 c e
      if chk && (l < 4 || l > rest.length) then .err .extLen
      else if l = 0 then .hang
      else if t = extCookie then ptLoop chk fuel (rest.drop l) (cs ++ [copyN (valueLen l) body])
      else ptLoop chk fuel (rest.drop l) cs
    | _ => .panic .index

/-- `(*Packet).authenticate(b, key)`: returns `pkt.Cookies` afterwards. The associated data is
    `b[:pkt.Auth.pos]`. `chk = true`: nonce length checked before `Open` (F16). -/
def authenticateG (chk : Bool) (A : AEAD) (b key : Bytes) (d : Decoded) : Res (List Bytes) :=
  if !keyOk key then .err .keySize else
  if chk && d.nonce.length ≠ 16 then .err .nonceLen else do
    let pt ← openC A key d.nonce d.ct (some (b.take d.pos))
    ptLoop chk (pt.length + 1) pt d.cookies

/-- `len(pkt.Cookies) != 0 && maxNumCookies(len(uid), len(pkt.Cookies[0].Cookie)) < 1` -/
def noRoomForCookie (d : Decoded) : Bool :=
  match d.cookies with
  | c :: _ => maxNumCookies d.uid.length c.length < 1
  | [] => false

/-- `ProcessRequest(b, key, &pkt)`. After the fixes it first refuses requests the reply
    encoder could not answer: unique identifier shorter than 32 bytes (F15), or so long
    that not even one cookie fits next to it (F15b). -/
def processRequestG (chk : Bool) (A : AEAD) (b key : Bytes) (d : Decoded) : Res (List Bytes) :=
  if chk && d.uid.length < 32 then .err .shortUid
  else if chk && noRoomForCookie d then .err .tooLarge
  else authenticateG chk A b key d

def processRequest := processRequestG true
def processRequestOld := processRequestG false

/-- `ProcessResponse(b, key, fetcher, &pkt, reqID)`: the cookies handed to `StoreCookie`, in order. -/
def processResponseG (chk : Bool) (A : AEAD) (b key : Bytes) (d : Decoded) (reqId : Bytes) : Res (List Bytes) :=
  if reqId ≠ d.uid then .err .respId else authenticateG chk A b key d

def processResponse := processResponseG true

/-! ### packet constructors -/

/-- `NewRequestPacket(ntskeData)`: `pool = ntskeData.Cookie` (the copy handed out by `FetchData`,
    not yet popped), `uid` = the 32 bytes of `newID()`. After the F6 fix the number of
    placeholders is capped so that request and response fit `MaxPacketLen`. -/
def newRequestPacketG (fixed : Bool) (pool : List Bytes) (c2s uid : Bytes) : Res Packet :=
  match pool with
  | [] => .panic .index
  | c :: _ =>
    let want := numStoredCookies - pool.length
    let nph := if fixed then min want (maxNumCookies 32 c.length - 1) else want
    .ok { uid := uid, cookies := [c], placeholders := List.replicate nph (zeros c.length), key := c2s, pt := [] }

def newRequestPacket := newRequestPacketG true
def newRequestPacketOld := newRequestPacketG false

/-- `NewResponsePacket(cookies, key, uniqueid)`: the cookies are packed as extension fields into a
    buffer of `len(cookies) * (4 + len(cookies[0]))` bytes which becomes the plaintext. After the
    F6 fix only as many cookies as fit `MaxPacketLen` (at least one) are used. -/
def newResponsePacketG (fixed : Bool) (cookies : List Bytes) (key uid : Bytes) : Res Packet :=
  match cookies with
  | [] => .panic .index
  | c0 :: _ =>
    let cs := if fixed then cookies.take (max 1 (maxNumCookies uid.length c0.length)) else cookies
    let cap := cs.length * (4 + c0.length)
    match packList cap extCookie cs [] with
    | .ok out => .ok { uid := uid, cookies := [], placeholders := [], key := key, pt := out ++ zeros (cap - out.length) }
    | .err e => .err e | .panic p => .panic p | .hang => .hang

def newResponsePacket := newResponsePacketG true
def newResponsePacketOld := newResponsePacketG false

/-! ### the listeners' NTS branch -/

/-- next 16 bytes of the scripted `crypto/rand` stream (zeros when exhausted) -/
def draw16 (r : Bytes) : Bytes × Bytes := (copyN 16 r, r.drop 16)

/-- the `for range len(Cookies)+len(CookiePlaceholders)` loop: one `EncryptWithNonce` +
    `Encode` per requested field under the current key; a failing encryption is skipped. -/
def freshCookies (A : AEAD) (sc : Triple) (curKey : Bytes) (curId : Nat) : Nat → Bytes → List Bytes × Bytes
  | 0, r => ([], r)
  | n + 1, r =>
    let (nonce, r') := draw16 r
    let (cs, r'') := freshCookies A sc curKey curId n r'
    match encryptCookie A sc curKey curId nonce with
    | .ok ec => (ecEncode ec :: cs, r'')
    | _ => (cs, r'')

/-- NTS branch of `runIPServer` / `runSCIONServer` for a datagram `b` longer than 48 bytes:
    `keys` = `provider.Get`, `(curId, curKey)` = `provider.Current()`, `hdr` = the encoded NTP
    response header, `rnd` = the `crypto/rand` stream. `err` = the request is dropped. -/
def serverReplyG (fixed : Bool) (A : AEAD) (keys : Nat → Option Bytes) (curId : Nat) (curKey : Bytes)
    (b hdr rnd : Bytes) : Res Bytes := do
  let d ← decodePacketG fixed b
  let cookie ← firstCookie d
  let ec ← decodeTLV fixed cookieTypeKeyID cookieTypeNonce cookieTypeCiphertext cookie
  match keys ec.num with
  | none => .err .noKey
  | some key =>
    let sc ← decryptCookieG fixed A ec key
    let cs ← processRequestG fixed A b sc.y d
    let (fresh, rnd') := freshCookies A sc curKey curId (cs.length + d.nph) rnd
    if fresh.isEmpty then .err .noCookies else do
      let pkt ← newResponsePacketG fixed fresh sc.x d.uid
      encodePacketG fixed A hdr pkt (draw16 rnd').1

def serverReply := serverReplyG true
def serverReplyOld := serverReplyG false

/-! ### Results kept across calls

  The listeners keep what `Decrypt` returned (the session keys `C2S`/`S2C`, which are sub-slices of
  the opened plaintext) while they authenticate the request, build the response and seal fresh
  cookies; other goroutines open other clients' cookies meanwhile. The model's functions are pure:
  a result depends only on the arguments of its own call (for `Decrypt`: key and cookie bytes) and
  can never change afterwards. `runCalls` is what a caller observes who makes several calls and
  looks at all results at the end; the harness op `seq.run` makes the same calls on the real code,
  keeps the returned Go values and renders them only after the last call (seeded C10-9: a pooled
  plaintext buffer made earlier results change under later calls). -/

/-- One call whose result the caller keeps. -/
inductive Call where
  | decrypt (cookie key : Bytes)          -- `ec.Decode(cookie)`, `ec.Decrypt(key)`
  | plain (b : Bytes)                     -- `(*ServerCookie).Decode(b)`
  | request (b key : Bytes)               -- `DecodePacket(b)`, `ProcessRequest(b, key, …)`
  | response (b key reqId : Bytes)        -- `DecodePacket(b)`, `ProcessResponse(b, key, …, reqId)`
deriving Repr

/-- What the caller holds afterwards. -/
inductive CallRes where
  | cookie (r : Res Triple)
  | cookies (r : Res (List Bytes))
deriving DecidableEq, Repr

def Call.run (A : AEAD) : Call → CallRes
  | .decrypt cookie key => .cookie (ecDecode cookie >>= fun ec => decryptCookie A ec key)
  | .plain b => .cookie (ScionTime.Nts.scDecode b)
  | .request b key => .cookies (decodePacket b >>= fun d => processRequest A b key d)
  | .response b key rid => .cookies (decodePacket b >>= fun d => processResponse A b key d rid)

/-- Several calls, all results inspected after the last one. -/
def runCalls (A : AEAD) (cs : List Call) : List CallRes := cs.map (Call.run A)

end ScionTime.Nts
