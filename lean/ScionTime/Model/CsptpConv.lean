/-
  Model of the conversions and formulas of net/csptp/csptp.go:
  TimestampFromTime, TimeFromTimestamp, DurationFromTimeInterval,
  C2SDelay, S2CDelay, MeanPathDelay, ClockOffset.

  A `time.Time` is an `Int` count of nanoseconds since the Unix epoch (`Unix()` = floor
  quotient by 10^9, `Nanosecond()` = non-negative remainder); `time.Duration` is `Int64`
  (wrap-around `+ -`, truncating `/`); `Time.Sub` saturates at `[-2^63, 2^63-1]`.
  A PTP timestamp is six bytes of seconds (big endian) and a uint32 of nanoseconds.
-/
namespace ScionTime.CsptpConv

def nsPerSec : Int := 1000000000

structure Timestamp where
  seconds : List Nat   -- [6]uint8, big endian
  ns      : Nat        -- uint32
deriving DecidableEq, Repr

inductive Enc where
  | panicBefore1970       -- "invalid argument: t must not be before 1970-01-01T00:00:00Z"
  | panicAfter48bit       -- "invalid argument: t must not be after 8921556-12-07T10:44:15.999999999Z"
  | ok (ts : Timestamp)
deriving DecidableEq, Repr

/-- The six `uint8(uint64(s) >> k)` bytes of a non-negative `s` (each cast keeps the low 8 bits). -/
def secBytes (s : Nat) : List Nat :=
  [s / 2^40 % 256, s / 2^32 % 256, s / 2^24 % 256, s / 2^16 % 256, s / 2^8 % 256, s % 256]

/-- `TimestampFromTime(t)` -/
def timestampFromTime (t : Int) : Enc :=
  let s := t / nsPerSec
  if s < 0 then .panicBefore1970
  else if s > 2^48 - 1 then .panicAfter48bit
  else .ok { seconds := secBytes s.toNat, ns := (t % nsPerSec).toNat }

/-- `uint64(b0)<<40 | … | uint64(b5)` for bytes (disjoint bit ranges, so `|` is `+`). -/
def secOfBytes : List Nat → Nat
  | [b0, b1, b2, b3, b4, b5] => b0 * 2^40 + b1 * 2^32 + b2 * 2^24 + b3 * 2^16 + b4 * 2^8 + b5
  | _ => 0

/-- `TimeFromTimestamp(t)`: `time.Unix(int64(s), int64(t.Nanoseconds))` (which normalises
    nanoseconds ≥ 10^9 into the seconds). -/
def timeFromTimestamp (ts : Timestamp) : Int :=
  (secOfBytes ts.seconds : Int) * nsPerSec + ts.ns

/-- A well-formed value of the Go type: six bytes, a uint32. -/
def Timestamp.WF (ts : Timestamp) : Prop :=
  ts.seconds.length = 6 ∧ (∀ b ∈ ts.seconds, b < 256) ∧ ts.ns < 2^32

/-- `DurationFromTimeInterval(i)`: `time.Duration(i >> 16)` (arithmetic shift). -/
def durationFromTimeInterval (i : Int64) : Int64 := i >>> 16

/-- The seeded breakage `i / 65536` (truncating) — differs on negative non-multiples. -/
def durationFromTimeIntervalDiv (i : Int64) : Int64 := i / 65536

/-- `t.Sub(u)` -/
def timeSub (t u : Int) : Int64 :=
  if t - u > 9223372036854775807 then Int64.maxValue
  else if t - u < -9223372036854775808 then Int64.minValue
  else Int64.ofInt (t - u)

/-- `C2SDelay` -/
def c2sDelay (t0 t1 : Int) (t1Corr utcCorr : Int64) : Int64 :=
  (timeSub t1 t0 - t1Corr) - utcCorr

/-- `S2CDelay` -/
def s2cDelay (t2 t3 : Int) (t3Corr utcCorr : Int64) : Int64 :=
  (timeSub t3 t2 - t3Corr) + utcCorr

/-- `MeanPathDelay` -/
def meanPathDelay (t0 t1 t2 t3 : Int) (t1Corr t3Corr : Int64) : Int64 :=
  ((timeSub t1 t0 - t1Corr) + (timeSub t3 t2 - t3Corr)) / 2

/-- `ClockOffset` -/
def clockOffset (t0 t1 t2 t3 : Int) (t1Corr t3Corr : Int64) : Int64 :=
  ((timeSub t1 t0 - t1Corr) - (timeSub t3 t2 - t3Corr)) / 2

end ScionTime.CsptpConv
