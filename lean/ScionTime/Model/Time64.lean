/-
  Model of net/ntp/ntp.go: Time64FromTime, TimeFromTime64, Time64.Before/After,
  ClockOffset, RoundTripDelay.

  A `time.Time` is modelled as an `Int` count of nanoseconds since the Unix epoch
  (Go stores seconds and a non-negative nanosecond part, so `Unix()` is the floor
  quotient and `Nanosecond()` the non-negative remainder).
-/
namespace ScionTime.Time64

def nsPerSec : Int := 1000000000
/-- `epoch` in ntp.go: seconds from the Unix epoch to the NTP epoch (negative). -/
def epoch : Int := -2208988800
/-- `secondsPerEra` -/
def era : Int := 4294967296

/-- unfold the three constants wherever they occur -/
macro "t64c" : tactic => `(tactic| (try unfold epoch at *) <;> (try unfold era at *) <;> (try unfold nsPerSec at *))

/-- `t.Unix()` -/
def unixSec (t : Int) : Int := t / nsPerSec
/-- `t.Nanosecond()` -/
def nanosecond (t : Int) : Int := t % nsPerSec

/-- `time.Unix(sec, nsec)` for `0 ≤ nsec < 10^9` (all the project passes). -/
def mkTime (sec nsec : Int) : Int := sec * nsPerSec + nsec

structure T64 where
  sec  : Int   -- uint32
  frac : Int   -- uint32
deriving Repr, DecidableEq

/-- `Time64FromTime`: `uint32(t.Unix() - epoch)`, `uint32(int64(ns) << 32 / 10^9)`. -/
def ofTime (t : Int) : T64 :=
  { sec := (unixSec t - epoch) % era
    frac := nanosecond t * era / nsPerSec }

/-- Seconds part of `TimeFromTime64` (Go's `/` on int64 truncates: `Int.tdiv`). -/
def decSec (s tref : Int) : Int :=
  let sec := epoch + Int.tdiv (tref - epoch) era * era + s
  if sec < tref - era / 2 then sec + era
  else if sec ≥ tref + era / 2 then sec - era
  else sec

/-- Seconds part of `TimeFromTime64` as it was at the pinned commit (before the
    `fix:` commit for finding F1): unfolds only towards the future. -/
def decSecOld (s tref : Int) : Int :=
  let sec := epoch + Int.tdiv (tref - epoch) era * era + s
  if sec < tref - era / 2 then sec + era else sec

/-- `int64(t.Fraction) * 10^9 >> 32` -/
def decNs (f : Int) : Int := f * nsPerSec / era

/-- `TimeFromTime64(t, t0)` -/
def toTime (x : T64) (t0 : Int) : Int :=
  mkTime (decSec x.sec (unixSec t0)) (decNs x.frac)

def toTimeOld (x : T64) (t0 : Int) : Int :=
  mkTime (decSecOld x.sec (unixSec t0)) (decNs x.frac)

/-- `Time64.Before` -/
def before (t u : T64) : Bool :=
  t.sec < u.sec || (t.sec == u.sec && t.frac < u.frac)

/-- `Time64.After` -/
def after (t u : T64) : Bool :=
  t.sec > u.sec || (t.sec == u.sec && t.frac > u.frac)

end ScionTime.Time64
