/-
  Model of the packet connections net/scion/quic.go hands to quic-go (ListenQUIC / DialQUIC):

    baseConn.readPkt        per-datagram decision of the read loop
    serverConn.ReadFrom     readPkt + reply path (path reversal) + address value for quic-go
    clientConn.ReadFrom     readPkt + "from the dialled remote address only"

  What gopacket/slayers make of the bytes (DecodeLayers with the four decoders SCION,
  hop-by-hop skipper, end-to-end skipper, UDP; `IgnoreUnsupported`) and what
  `snet.DefaultReplyPather.ReplyPath` makes of the raw path are *inputs*: a datagram is given by
  the facts the code branches on. The model describes the code as repaired; the behaviour
  before the `fix:` commit is kept as `…Old`.

  Why it matters (C08): quic-go's receive loop (`Transport.listen`) calls `ReadFrom` in a
  goroutine without `recover`, and closes the whole transport when `ReadFrom` returns an error
  that is not a temporary `net.Error`. So for ONE datagram from anybody, a panic ends the
  process and an error return ends the NTS-KE-over-QUIC server (every later `Accept` fails).
-/
import ScionTime.Model.ClientNtp
namespace ScionTime.ScionQuic
open ScionTime.ClientNtp (HostAddr t4Ip t16Ip t4Svc unmapIP)

inductive Layer where
  | scion | hbh | e2e | udp
deriving Repr, DecidableEq

/-- One received datagram as parsed (the parse itself is outside the model). -/
structure Dgram where
  /-- `parser.DecodeLayers(buf, &decoded) == nil` -/
  decodeOk : Bool
  /-- the layer types `DecodeLayers` reports, in order -/
  decoded : List Layer
  srcIA : Nat
  /-- `SrcAddrType`, `RawSrcAddr` -/
  src : HostAddr
  /-- `udpLayer.SrcPort` -/
  srcPort : Nat
  /-- `scionLayer.Path.Type()`, and the `Path.Len()` bytes `Path.SerializeTo` writes -/
  pathType : Nat
  pathRaw : List Nat
  /-- `udpLayer.Payload` -/
  payload : List Nat
  /-- `snet.DefaultReplyPather{}.ReplyPath(RawPath{pathType, pathRaw})`: type and bytes of the
      reversed path, or `none` = error (unregistered path type, undecodable or irreversible
      path) — oracle input, consulted by the server side only -/
  rev : Option (Nat × List Nat)
deriving Repr, DecidableEq

/-- `scionLayer.SrcAddr()` = `slayers.ParseAddr(SrcAddrType, RawSrcAddr)` -/
inductive SrcAddr where
  | ip (bytes : List Nat)   -- `addr.HostIP`: T4Ip / T16Ip
  | svc                     -- `addr.HostSVC`: T4Svc
  | unsupported             -- error "unsupported address type/length combination"
deriving Repr, DecidableEq

def srcAddr (h : HostAddr) : SrcAddr :=
  if h.type = t4Ip then .ip h.raw
  else if h.type = t16Ip then .ip h.raw
  else if h.type = t4Svc then .svc
  else .unsupported

/-- what `readPkt` hands back for a datagram it does not ignore:
    `n = copy(b, payload)`, `remoteAddr` (IA, `srcAddr.IP().AsSlice()`, `udpLayer.SrcPort`),
    `snet.RawPath{PathType, Raw}`; `lastHop` is the underlay source, always passed through -/
structure Pkt where
  payload : List Nat
  ia : Nat
  host : List Nat
  port : Nat
  pathType : Nat
  pathRaw : List Nat
deriving Repr, DecidableEq

/-- one iteration of `readPkt`'s loop -/
inductive Step where
  | ignore              -- `continue`
  | deliver (p : Pkt)   -- `return n, remoteAddr, rpath, lastHop, nil`
  | panic               -- `srcAddr.IP()` on a service address: "IP called on non-IP address"
deriving Repr, DecidableEq

def lastLayer (l : List Layer) : Option Layer := l.getLast?

/-- `readPkt`, one datagram; `bufLen = len(b)` of the caller's buffer; `svc` = what a service
    source address leads to (`ignore` as repaired, `panic` before). -/
def readPktWith (svc : Step) (bufLen : Nat) (d : Dgram) : Step :=
  if !d.decodeOk then .ignore                                   -- ignore non-SCION packet
  else if !(d.decoded.length ≥ 2 && lastLayer d.decoded == some .udp) then .ignore  -- ignore non-UDP payload
  else match srcAddr d.src with
    | .unsupported => .ignore                                   -- ignore unexpected address type
    | .svc => svc
    | .ip b => .deliver ⟨d.payload.take bufLen, d.srcIA, b, d.srcPort, d.pathType, d.pathRaw⟩

def readPkt := readPktWith .ignore
def readPktOld := readPktWith .panic

/-- result of one `ReadFrom` call of the server-side connection for one datagram -/
inductive SrvStep where
  | ignore
  /-- `(n, udpAddrPath{addr, replyPath, lastHop}, nil)` -/
  | deliver (p : Pkt) (replyType : Nat) (replyRaw : List Nat)
  /-- `(0, nil, errPathReversal)` — before the fix; quic-go closes the transport on it -/
  | errPathReversal
  | panic
deriving Repr, DecidableEq

/-- `serverConn.ReadFrom`, one datagram: as repaired a datagram whose path cannot be reversed is
    ignored like any other datagram that cannot be answered -/
def serverRead (bufLen : Nat) (d : Dgram) : SrvStep :=
  match readPkt bufLen d with
  | .ignore => .ignore
  | .panic => .panic
  | .deliver p =>
    match d.rev with
    | none => .ignore
    | some (t, r) => .deliver p t r

def serverReadOld (bufLen : Nat) (d : Dgram) : SrvStep :=
  match readPktOld bufLen d with
  | .ignore => .ignore
  | .panic => .panic
  | .deliver p =>
    match d.rev with
    | none => .errPathReversal
    | some (t, r) => .deliver p t r

/-- the dialled remote address (`c.remoteAddr = remoteAddr.String()`): IA, IP bytes, port -/
structure Remote where
  ia : Nat
  host : List Nat
  port : Nat
deriving Repr, DecidableEq

/-- `remoteAddr.String() != c.remoteAddr`: `udp.UDPAddr.String()` prints `IA,IP:port` with the IP
    in `net.IP`'s text form, in which an IPv4 address and its IPv4-mapped form coincide -/
def sameRemote (r : Remote) (p : Pkt) : Bool :=
  p.ia == r.ia && p.port == r.port &&
    match unmapIP p.host, unmapIP r.host with
    | some a, some b => a == b
    | _, _ => false

/-- `clientConn.ReadFrom`, one datagram -/
def clientReadWith (rd : Nat → Dgram → Step) (r : Remote) (bufLen : Nat) (d : Dgram) : Step :=
  match rd bufLen d with
  | .deliver p => if sameRemote r p then .deliver p else .ignore  -- ignore packet from unexpected source
  | s => s

def clientRead := clientReadWith readPkt
def clientReadOld := clientReadWith readPktOld

/-- What quic-go gets from one `ReadFrom` call on the server-side connection when the socket
    delivers the datagrams `ds` in this order: the first datagram that is not ignored decides;
    `none` = all ignored, the call is still blocked in the socket read. -/
def serverReadFrom (bufLen : Nat) : List Dgram → Option (SrvStep × List Dgram)
  | [] => none
  | d :: rest =>
    match serverRead bufLen d with
    | .ignore => serverReadFrom bufLen rest
    | s => some (s, rest)

def serverReadFromOld (bufLen : Nat) : List Dgram → Option (SrvStep × List Dgram)
  | [] => none
  | d :: rest =>
    match serverReadOld bufLen d with
    | .ignore => serverReadFromOld bufLen rest
    | s => some (s, rest)

end ScionTime.ScionQuic
