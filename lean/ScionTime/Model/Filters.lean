/-
  Model/Filters.lean — the two offset filters of core/client (property C17).

  * `LuckyPacketFilter` (core/client/filter_flash.go): FIFO window of the last `cap`
    samples, sort a copy by round-trip delay, keep the `pick` lowest-delay ones, sort those
    by offset, return the median offset.  Offsets and delays are `time.Duration` = `Int64`
    with Go's wrap-around `+ -` and truncating `/` (Lean's `Int64` has the same semantics).
  * `NtimedFilter` (core/client/filter_ntimed.go): running averages over `float64`,
    transcribed statement by statement over the exact software double `F64` (Go on amd64
    neither fuses nor reassociates; the order of operations below is the order of the
    source).

  A `time.Time` is an `Int` number of nanoseconds (DESIGN §5); `Time.Sub` saturates at
  `MinInt64`/`MaxInt64` as in Go.

  Local copies, to be unified by the integrator:
    `timeSub`, `clockOffset`, `roundTripDelay`  — time.Time.Sub, net/ntp ClockOffset/RoundTripDelay
    `midpoint64`, `medianI64`, `inv64`           — base/timemath Midpoint, Median (on a sorted
                                                  slice), Inv   (c02c18 models these in
                                                  Model/Timemath.lean)
  Core Lean only.
-/
import ScionTime.Model.F64
namespace ScionTime.Filters
open ScionTime.F64

/-! ## time.Time / net/ntp / timemath leaves -/

def minI64 : Int := -9223372036854775808
def maxI64 : Int := 9223372036854775807

/-- `t.Sub(u)` for wall-clock times: the exact difference if it fits a `Duration`,
    otherwise `minDuration` / `maxDuration`. -/
def timeSub (t u : Int) : Int64 :=
  let d := t - u
  if d < minI64 then Int64.ofInt minI64
  else if d > maxI64 then Int64.ofInt maxI64
  else Int64.ofInt d

/-- `ntp.ClockOffset(t0, t1, t2, t3) = (t1.Sub(t0) + t2.Sub(t3)) / 2` (wrapping `+`,
    truncating `/`). -/
def clockOffset (t0 t1 t2 t3 : Int) : Int64 :=
  (timeSub t1 t0 + timeSub t2 t3) / 2

/-- `ntp.RoundTripDelay(t0, t1, t2, t3) = t3.Sub(t0) - t2.Sub(t1)`. -/
def roundTripDelay (t0 t1 t2 t3 : Int) : Int64 :=
  timeSub t3 t0 - timeSub t2 t1

/-- `timemath.Midpoint(x, y) = x + (y-x)/2`; the lucky-packet filter spells the same
    expression out inline. -/
def midpoint64 (x y : Int64) : Int64 := x + (y - x) / 2

/-- `timemath.Inv`. -/
def inv64 (d : Int) : Int := if d = minI64 then maxI64 else -d

/-- The median of an already sorted slice as `timemath.Median` and `LuckyPacketFilter.Do`
    compute it: the middle element, or `Midpoint` of the two middle ones.  `none` is the
    index panic Go raises on an empty slice (`ds[-1]`). -/
def medianI64 (ds : List Int64) : Option Int64 :=
  let n := ds.length
  let i := n / 2
  if n % 2 ≠ 0 then ds[i]?
  else
    match ds[i - 1]?, ds[i]? with
    | some a, some b => if i = 0 then none else some (midpoint64 a b)
    | _, _ => none

/-! ## LuckyPacketFilter -/

/-- `measurement` (the `stamp` field is stored but never read). -/
structure Meas where
  off : Int64
  rtd : Int64
deriving DecidableEq, Repr, Inhabited

/-- A sample: the four timestamps handed to `Filter.Do`. -/
structure Sample where
  cTx : Int
  sRx : Int
  sTx : Int
  cRx : Int
deriving DecidableEq, Repr, Inhabited

def Sample.meas (x : Sample) : Meas :=
  { off := clockOffset x.cTx x.sRx x.sTx x.cRx
    rtd := roundTripDelay x.cTx x.sRx x.sTx x.cRx }

/-- Stable insertion: `x` goes before the first element that is strictly greater under
    `key`.  For `n ≤ 12` elements `slices.SortFunc` is `insertionSortCmpFunc`, which moves
    an element left while it is strictly smaller than its left neighbour — on a sorted
    prefix that is the same position.  (For `n > 12` Go uses pdqsort, which is not stable:
    the model's order among *equal* keys is then one of several the code may produce.
    The property's hypothesis "distinct delays" makes the result independent of that.) -/
def insertBy (key : Meas → Int64) (x : Meas) : List Meas → List Meas
  | [] => [x]
  | y :: ys => if key x < key y then x :: y :: ys else y :: insertBy key x ys

/-- `slices.SortFunc(l, func(a, b) int { return cmp.Compare(key(a), key(b)) })`. -/
def sortBy (key : Meas → Int64) (l : List Meas) : List Meas :=
  l.foldl (fun acc x => insertBy key x acc) []

/-- The filter: `cap(f.state)`, `f.pick`, `f.state` (`luckyPkts` is scratch space of the
    same capacity).  The zero value has `cap = 0`. -/
structure Lucky where
  cap : Nat
  pick : Nat
  state : List Meas
deriving DecidableEq, Repr, Inhabited

/-- `&LuckyPacketFilter{}` -/
def Lucky.zero : Lucky := { cap := 0, pick := 0, state := [] }

/-- `NewLuckyPacketFilter(cap, pick)`; the error is the panic message. -/
def luckyNew (cap pick : Int) : Except String Lucky :=
  if cap ≤ 0 then .error "cap must be greater than 0"
  else if pick ≤ 0 then .error "pick must be greater than 0"
  else .ok { cap := cap.toNat, pick := (min pick cap).toNat, state := [] }

/-- The window update of `Do`: drop the oldest sample when full, append the new one. -/
def luckyPush (f : Lucky) (m : Meas) : List Meas :=
  (if f.state.length = f.cap then f.state.drop 1 else f.state) ++ [m]

/-- The selection of `Do` on the updated window: the `pick` lowest-delay samples if
    there are more than `pick`, all of them otherwise. -/
def luckySelect (pick : Nat) (w : List Meas) : List Meas :=
  if pick < w.length then (sortBy Meas.rtd w).take pick else w

/-- `(*LuckyPacketFilter).Do`.  The result is `none` where Go would panic with an index
    error (only possible with `pick = 0`, which `NewLuckyPacketFilter` excludes). -/
def luckyDo (f : Lucky) (x : Sample) : Lucky × Option Int64 :=
  if f.cap = 0 then
    (f, some (clockOffset x.cTx x.sRx x.sTx x.cRx))
  else
    let st := luckyPush f x.meas
    let lp := luckySelect f.pick st
    let lp := sortBy Meas.off lp
    ({ f with state := st }, medianI64 (lp.map Meas.off))

/-- `(*LuckyPacketFilter).Reset` -/
def luckyReset (f : Lucky) : Lucky := { f with state := [] }

/-- Operations of a filter history. -/
inductive LOp where
  | sample (x : Sample)
  | reset
deriving DecidableEq, Repr

def luckyStep (f : Lucky) : LOp → Lucky × Option (Option Int64)
  | .sample x => let r := luckyDo f x; (r.1, some r.2)
  | .reset => (luckyReset f, none)

/-- Run a history; the outputs of the `Do` calls in order. -/
def luckyRun (f : Lucky) : List LOp → List (Option Int64)
  | [] => []
  | op :: ops =>
    let r := luckyStep f op
    match r.2 with
    | some o => o :: luckyRun r.1 ops
    | none => luckyRun r.1 ops

/-- The state after a history. -/
def luckyFinal (f : Lucky) : List LOp → Lucky
  | [] => f
  | op :: ops => luckyFinal (luckyStep f op).1 ops

/-! ## NtimedFilter -/

/-- float constants of the source -/
def c0 : F64 := .zero false
def c1 : F64 := ofConst 1 1
def c2 : F64 := ofConst 2 1
def c3 : F64 := ofConst 3 1            -- filterThreshold
def c20 : F64 := ofConst 20 1          -- filterAverage
def c0001 : F64 := ofConst 1 1000      -- 0.001 in `combine`

structure Ntimed where
  epoch : Nat
  alo : F64
  amid : F64
  ahi : F64
  alolo : F64
  ahihi : F64
  navg : F64
deriving DecidableEq, Repr, Inhabited

/-- `NewNtimedFilter(log)`: all fields zero. -/
def Ntimed.fresh : Ntimed :=
  { epoch := 0, alo := c0, amid := c0, ahi := c0, alolo := c0, ahihi := c0, navg := c0 }

/-- `(*NtimedFilter).Reset`, field by field; `e` is what `timebase.Epoch()` returns. -/
def ntimedReset (e : Nat) (f : Ntimed) : Ntimed :=
  let f := { f with epoch := e }
  let f := { f with alo := c0 }
  let f := { f with amid := c0 }
  let f := { f with ahi := c0 }
  let f := { f with alolo := c0 }
  let f := { f with ahihi := c0 }
  let f := { f with navg := c0 }
  f

/-- `combine(lo, mid, hi, trust)`: `offset = mid`; the weight (returned for the log line
    only) is `max 1 (0.001 + trust*2.0/(hi-lo).Seconds())`.  `hi - lo` wraps as `int64`. -/
def combine (lo mid hi : Int) (trust : F64) : Int × F64 :=
  let w := add c0001 (div (mul trust c2)
    (durationSeconds (Int64.ofInt hi - Int64.ofInt lo).toInt))
  (mid, if lt w c1 then c1 else w)

/-- Everything `Do` computes (the limits, the branch and the seconds values are exposed for
    the theorems and the driver's branch tag; Go only returns `out`). -/
structure NtimedResult where
  state : Ntimed
  lo : F64
  hi : F64
  loLim : F64
  hiLim : F64
  failLo : Bool
  failHi : Bool
  branch : Nat
  mid : F64
  out : Int
deriving Repr

/-- `if f.epoch != timebase.Epoch() { f.Reset() }` -/
def ntimedEnter (e : Nat) (f : Ntimed) : Ntimed :=
  if f.epoch ≠ e then ntimedReset e f else f

/-- `if f.navg < filterAverage { f.navg += 1.0 }` -/
def ntimedNavg (f : Ntimed) : F64 :=
  if lt f.navg c20 then add f.navg c1 else f.navg

/-- `loNoise, hiNoise` -/
def ntimedNoise (f : Ntimed) (navg : F64) : F64 × F64 :=
  if gt navg c2 then
    (sqrt (sub f.alolo (mul f.alo f.alo)), sqrt (sub f.ahihi (mul f.ahi f.ahi)))
  else (c0, c0)

/-- The `if failLo && failHi … else if … else …` chain: the branch number and the value
    of `mid` after it. -/
def ntimedBranch (f : Ntimed) (navg lo hi mid : F64) (failLo failHi : Bool) : Nat × F64 :=
  if failLo && failHi then (1, mid)
  else if gt navg c3 && failLo then (2, add f.amid (sub hi f.ahi))
  else if gt navg c3 && failHi then (3, add f.amid (sub lo f.alo))
  else (4, mid)

/-- The seconds values `lo`, `hi` and the initial `mid := (lo + hi) / 2` of a sample. -/
def ntimedLo (x : Sample) : F64 := durationSeconds (timeSub x.cTx x.sRx).toInt
def ntimedHi (x : Sample) : F64 := durationSeconds (timeSub x.cRx x.sTx).toInt
def ntimedMid (x : Sample) : F64 := div (add (ntimedLo x) (ntimedHi x)) c2

/-- `(*NtimedFilter).Do`; `e` is the value `timebase.Epoch()` returns during the call. -/
def ntimedDoFull (e : Nat) (f : Ntimed) (x : Sample) : NtimedResult :=
  let lo := ntimedLo x
  let hi := ntimedHi x
  let mid := ntimedMid x
  let f := ntimedEnter e f
  let navg := ntimedNavg f
  let noise := ntimedNoise f navg
  let loLim := sub f.alo (mul noise.1 c3)
  let hiLim := add f.ahi (mul noise.2 c3)
  let failLo := lt lo loLim
  let failHi := gt hi hiLim
  let bm := ntimedBranch f navg lo hi mid failLo failHi
  let branch := bm.1
  let mid := bm.2
  let r := if gt navg c2 && branch ≠ 4 then mul navg navg else navg
  let alo := add f.alo (div (sub lo f.alo) r)
  let amid := add f.amid (div (sub mid f.amid) r)
  let ahi := add f.ahi (div (sub hi f.ahi) r)
  let alolo := add f.alolo (div (sub (mul lo lo) f.alolo) r)
  let ahihi := add f.ahihi (div (sub (mul hi hi) f.ahihi) r)
  let ow := combine (toDuration lo) (toDuration mid) (toDuration hi) c1
  { state := { epoch := f.epoch, alo := alo, amid := amid, ahi := ahi,
               alolo := alolo, ahihi := ahihi, navg := navg }
    lo := lo, hi := hi, loLim := loLim, hiLim := hiLim, failLo := failLo, failHi := failHi
    branch := branch, mid := mid
    out := inv64 ow.1 }

def ntimedDo (e : Nat) (f : Ntimed) (x : Sample) : Ntimed × Int :=
  let r := ntimedDoFull e f x
  (r.state, r.out)

/-- Operations of an Ntimed history; each carries the clock epoch current at the call. -/
inductive NOp where
  | sample (e : Nat) (x : Sample)
  | reset (e : Nat)
deriving DecidableEq, Repr

def ntimedStep (f : Ntimed) : NOp → Ntimed × Option Int
  | .sample e x => let r := ntimedDo e f x; (r.1, some r.2)
  | .reset e => (ntimedReset e f, none)

def ntimedRun (f : Ntimed) : List NOp → List Int
  | [] => []
  | op :: ops =>
    let r := ntimedStep f op
    match r.2 with
    | some o => o :: ntimedRun r.1 ops
    | none => ntimedRun r.1 ops

def ntimedFinal (f : Ntimed) : List NOp → Ntimed
  | [] => f
  | op :: ops => ntimedFinal (ntimedStep f op).1 ops

end ScionTime.Filters
