/-
  Model of the receive loop of core/client/client_csptp_ip.go
  ((*CSPTPClientIP).MeasureClockOffset, from `for numRetries := 0; ; numRetries++` to the
  `break`) as a state machine over "one ReadMsgUDPAddrPort returned", and of what the function
  returns afterwards.  Model/CsptpClient.lean has the verdict on ONE datagram (`onDatagram`) and
  the evaluation after the loop (`evaluate`); this file adds the loop's state: the retry counter,
  `respmsg0Ok`/`respmsg1Ok`, the kept messages and TLV, the reused receive buffer.

  Retry rule of the loop: every failure path is
      `if numRetries != maxNumRetries && deadlineIsSet && timebase.Now().Before(deadline) { log; continue }`
      `return time.Time{}, 0, err`
  and `numRetries` counts ITERATIONS (the `for` post statement runs on `continue` and after an
  accepted datagram alike), so a failure is fatal exactly in the fourth iteration (index 3), with
  no deadline, or after the deadline.  `before` (the clock read) is an input of each event.

  `resptlv` is ONE variable decoded into in place: `csptp.DecodeResponseTLV` assigns the five
  header fields before it checks the length, so a Follow_Up with a short TLV leaves a partially
  overwritten `resptlv` behind (`decodeInto`).  `respmsg1Ok` is cleared before, so the
  evaluation never sees it (Props/C08CsptpCli.lean).

  Core Lean only.
-/
import ScionTime.Model.CsptpClient
import ScionTime.Model.CsptpSrv
namespace ScionTime.CsptpCliLoop
open ScionTime.Wire ScionTime.Csptp ScionTime.CsptpClient

def maxNumRetries : Nat := 3
def maxMessageLength : Nat := 98

/-- `srcAddr` compared with `(remoteAddr, 319)` and `(remoteAddr, 320)` -/
inductive Src where
  | event      -- the queried server's event port
  | general    -- the queried server's general port
  | other      -- any other address or port
deriving Repr, DecidableEq

/-- what one `conn.ReadMsgUDPAddrPort(buf, oob)` returned, and what `timebase.Now().Before(deadline)`
    says at that moment (read only on a failure path) -/
inductive Ev where
  | readErr (before : Bool)
  | dgram (wire : List Nat) (otherFlags : Nat) (src : Src) (rxt : Int) (before : Bool)
deriving Repr, DecidableEq

def Ev.rxt : Ev → Int
  | .readErr _ => 0
  | .dgram _ _ _ t _ => t

/-- the variables of the loop that outlive an iteration -/
structure Loop where
  numRetries : Nat
  backing : List Nat       -- the 98 bytes behind `buf` (first: the client's own Follow_Up request)
  ok0 : Bool               -- respmsg0Ok
  ok1 : Bool               -- respmsg1Ok
  m0 : Message             -- respmsg0
  m1 : Message             -- respmsg1
  tlv : ResponseTLV        -- resptlv
  rx0 : Int                -- cRxTime0
  rx1 : Int                -- cRxTime1
deriving Repr, DecidableEq

def zeroTLV : ResponseTLV := ⟨0, 0, 0, 0, 0, 0, ⟨0, 0⟩, 0, 0, zeroDS⟩

/-- the loop's variables when the loop is entered: `buf` still holds the Follow_Up request -/
def Loop.start (seq : Nat) : Loop :=
  { numRetries := 0, backing := CsptpSrv.clientFollowUpBytes seq, ok0 := false, ok1 := false,
    m0 := zeroMessage, m1 := zeroMessage, tlv := zeroTLV, rx0 := 0, rx1 := 0 }

/-- outcome of one iteration -/
inductive Step where
  | retry (st : Loop) (log : String)   -- failure path, logged, `continue`
  | next (st : Loop)                   -- datagram accepted, pair not yet complete
  | done (st : Loop)                   -- `break`: both halves present
  | fail (err : String)                -- `return time.Time{}, 0, err`
  | panic (cls : String)
deriving Repr, DecidableEq

/-- a failure path -/
def failPath (dl : Bool) (st : Loop) (before : Bool) (err log : String) : Step :=
  if st.numRetries ≠ maxNumRetries ∧ dl = true ∧ before = true
  then .retry { st with numRetries := st.numRetries + 1 } log
  else .fail err

/-- end of the loop body -/
def endOfBody (st : Loop) : Step :=
  if st.ok0 && st.ok1 then .done st else .next { st with numRetries := st.numRetries + 1 }

/-- `csptp.DecodeResponseTLV(&resptlv, b)` on the variable `old`: the new value and whether
    `err == nil`. -/
def decodeInto (old : ResponseTLV) (b : List Nat) : ResponseTLV × Bool :=
  match decodeResponseTLV b with
  | .ok t => (t, true)
  | _ =>
    if b.length < tlvHeadLen then (old, false) else
    let hd := reqOfFields (fieldsOf tlvHeadLayout b)
    ({ old with type := hd.type, length := hd.length, organizationID := hd.organizationID,
                organizationSubType := hd.organizationSubType, flagField := hd.flagField }, false)

/-- the response-TLV kind check -/
def isResponseKind (t : ResponseTLV) : Bool :=
  t.type == tlvTypeOrganizationExtension && t.organizationID == orgIDMeinberg &&
    t.organizationSubType == orgSubTypeResponse

def logRead : String := "failed to read packet"
def logStructure : String := "failed to decode packet payload: unexpected structure"
def logDecode : String := "failed to decode packet payload"
def logUnexpected : String := "received unexpected message"
def logSource : String := "failed to read packet: unexpected source"

/-- one iteration; `dl`: `deadlineIsSet`; `seq`: `c.sequenceID` -/
def iter (dl : Bool) (seq : Nat) (st : Loop) : Ev → Step
  | .readErr before => failPath dl st before "read" logRead
  | .dgram wire otherFlags src rxt before =>
    let backing := CsptpSrv.recvInto st.backing wire
    let st := { st with backing := backing }
    if CsptpSrv.recvFlags wire.length otherFlags ≠ 0 then failPath dl st before "flags" logRead else
    let n := min wire.length maxMessageLength
    if n < minMessageLength then failPath dl st before "packet" logStructure else
    match CsptpSrv.sliceTo backing minMessageLength with            -- buf[:csptp.MinMessageLength]
    | .panic c => .panic c
    | .err _ => failPath dl st before "size" logDecode
    | .ok hdr =>
    match decodeMessage hdr with
    | .panic c => .panic c
    | .err _ => failPath dl st before "size" logDecode
    | .ok msg =>
      if n ≠ msg.messageLength then failPath dl st before "packet" logUnexpected else
      if msg.sequenceID ≠ seq then failPath dl st before "packet" logUnexpected else
      if msg.sdoIDMessageType = messageTypeSync then
        let st := { st with ok0 := false }
        if src ≠ .event then failPath dl st before "source" logSource else
        if n - minMessageLength ≠ 0 then failPath dl st before "packet" logUnexpected else
        endOfBody { st with rx0 := rxt, m0 := msg, ok0 := true }
      else if msg.sdoIDMessageType = messageTypeFollowUp then
        let st := { st with ok1 := false }
        if src ≠ .general then failPath dl st before "source" logSource else
        match CsptpSrv.sliceFrom backing n minMessageLength with    -- buf[csptp.MinMessageLength:]
        | .panic c => .panic c
        | .err _ => failPath dl st before "tlv-size" logDecode
        | .ok body =>
          let (tlv, ok) := decodeInto st.tlv body
          let st := { st with tlv := tlv }
          if !ok then failPath dl st before "tlv-size" logDecode else
          if !isResponseKind tlv then failPath dl st before "packet" logUnexpected else
          if n - minMessageLength ≠ encodedTLVLength tlv.flagField then failPath dl st before "packet" logUnexpected else
          endOfBody { st with rx1 := rxt, m1 := msg, ok1 := true }
      else failPath dl st before "packet" logUnexpected

/-- how the loop ended on a finite list of events -/
inductive Result where
  | ok (st : Loop) (trace : List String)       -- pair complete: the function goes on to evaluate
  | err (e : String) (trace : List String)     -- the function returned this error
  | pending (st : Loop) (trace : List String)  -- events used up, the loop is blocked in the next read
  | panic (cls : String)
deriving Repr, DecidableEq

/-- the loop over a list of events; `trace`: the Info records logged by the failure paths -/
def run (dl : Bool) (seq : Nat) (st : Loop) (trace : List String) : List Ev → Result
  | [] => .pending st trace
  | e :: rest =>
    match iter dl seq st e with
    | .retry st' log => run dl seq st' (trace ++ [log]) rest
    | .next st' => run dl seq st' trace rest
    | .done st' => .ok st' trace
    | .fail err => .err err trace
    | .panic c => .panic c

/-- what `MeasureClockOffset` returns once the loop has ended with a complete pair:
    `timestamp = cRxTime0`, `offset = clockOffset` of `CsptpClient.evaluate` -/
def report (cTxTime0 : Int) (st : Loop) : Evaluation :=
  evaluate cTxTime0 st.rx0 st.m0 st.m1 st.tlv

end ScionTime.CsptpCliLoop
