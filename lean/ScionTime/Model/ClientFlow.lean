/-
  Client-side control flow around the per-datagram decision of Model/ClientNtp.lean:

  (a) core/client/client.go   the attempt loops of MeasureClockOffsetIP and of the per-path
      goroutine of MeasureClockOffsetSCION (identical text, named results ts / off / err), over an
      abstract per-attempt outcome AND the state of the context when each attempt is entered;
      the collection step of MeasureClockOffsetSCION for one participating client.
  (b) core/client/client_ip.go / client_scion.go   where cTxTime1 comes from (kernel transmit
      timestamp with id 0, else a clock reading) and the clock readings one exchange takes, in
      the order the code takes them: the exchange is a function of the list of readings.
  (c) the retry budget of the receive loop as an explicit counter, the deadline test evaluated
      on a clock reading, and the refusal site of every refused datagram.
  (d) the byte windows of a received SCION/UDP packet that are handed to the packet
      authenticator (SPAO), to NTS and to the NTP decoder.
  (e) the cookie flow of one exchange (FetchData before the request; StoreCookie only for the
      cookies of an authenticated reply), composed with Model/NtsPool.lean.

  Core Lean only.
-/
import ScionTime.Model.ClientNtp
import ScionTime.Model.NtsPool
namespace ScionTime.ClientFlow
open ScionTime.Time64 ScionTime.NtpMath ScionTime.ClientNtp

/-! ## (a) attempt wrappers and the context -/

/-- the context as one attempt finds it on entry -/
inductive CtxAt where
  /-- `ctx.Err() == nil` -/
  | live
  /-- `ctx.Err() != nil` but no deadline has passed (cancelled by the caller): the per-exchange
      functions never ask `ctx.Err()`, they only install `ctx.Deadline()` on the socket — the
      exchange runs as with a live context -/
  | cancelled
  /-- the deadline has passed: `conn.SetDeadline(deadline)` with a past instant makes
      `WriteToUDPAddrPort` fail (i/o timeout) — no request leaves, the attempt is an error -/
  | expired
deriving Repr, DecidableEq

/-- `ctx.Err() != nil` -/
def CtxAt.done : CtxAt → Bool
  | .live => false
  | _ => true

/-- one attempt: the context on entry and what the network would make of the exchange once the
    request is out (`Attempt.ok ts off inInterleavedModeAfterwards` / `Attempt.err`) -/
structure AttemptIn where
  ctx : CtxAt
  net : Attempt
deriving Repr, DecidableEq

/-- result of `measureClockOffsetIP` / `measureClockOffsetSCION` entered in context state `ctx` -/
def attemptResult (a : AttemptIn) : Attempt :=
  match a.ctx with
  | .expired => .err .other
  | _ => a.net

/-- The attempt loop, statement by statement (client.go, both places):

        for i := range n {
            [variant only: if ctx.Err() != nil { break }]
            t, o, e := ntpc.measureClockOffset…(ctx, …)
            if e == nil { ts, off, err = t, o, e; if ntpc.InInterleavedMode() { break } }
            else { if nerr == i { err = e }; nerr++ }
        }

    Result: the named results and the number of exchanges started. `breakOnDone = false` is the
    code; `true` is the variant that leaves the loop when the context is done. -/
def wrapLoopCtx (breakOnDone : Bool) : Nat → WrapState → List AttemptIn → WrapState × Nat
  | _, s, [] => (s, 0)
  | i, s, a :: rest =>
    if breakOnDone && a.ctx.done then (s, 0)
    else
      match attemptResult a with
      | .ok t o inIL =>
        let s' := { s with ts := t, off := o, err := none }
        if inIL then (s', 1)
        else ((wrapLoopCtx breakOnDone (i + 1) s' rest).1, (wrapLoopCtx breakOnDone (i + 1) s' rest).2 + 1)
      | .err e =>
        let s' := { s with err := if s.nerr = i then some e else s.err, nerr := s.nerr + 1 }
        ((wrapLoopCtx breakOnDone (i + 1) s' rest).1, (wrapLoopCtx breakOnDone (i + 1) s' rest).2 + 1)

/-- `n = 3` with `InterleavedMode`, else `1` -/
def attempts (interleavedMode : Bool) : Nat := if interleavedMode then 3 else 1

/-- `MeasureClockOffsetIP` / the goroutine body of `MeasureClockOffsetSCION`: zero values of the
    named results, then the loop. `ins` must offer at least `attempts il` entries. -/
def wrapCtx (breakOnDone il : Bool) (ins : List AttemptIn) : WrapState × Nat :=
  wrapLoopCtx breakOnDone 0 ⟨0, 0, none, 0⟩ (ins.take (attempts il))

/-- the values of the last successful attempt among those the loop executes (it stops after a
    success that leaves the client in interleaved mode) -/
def lastOkGo : Option (Int × Int64) → List Attempt → Option (Int × Int64)
  | acc, [] => acc
  | _, .ok t o true :: _ => some (t, o)
  | _, .ok t o false :: rest => lastOkGo (some (t, o)) rest
  | acc, .err _ :: rest => lastOkGo acc rest

def lastOk (l : List Attempt) : Option (Int × Int64) := lastOkGo none l

/-- `MeasureClockOffsetSCION` behind the goroutines when ONE client takes part (`ms` has one slot):
    `collectMeasurements` stores the goroutine's measurement iff its error is nil and the
    `select` took it (`collected`; with a context that is done when the measurement arrives the
    `select` may take `ctx.Done()` instead — scheduler's choice); `n == 0` is `errNoMeasurement`,
    else the fault-tolerant midpoint of the one value is that value. -/
def scionWrap1 (collected : Bool) (g : WrapState) : WrapState :=
  if collected && g.err.isNone then ⟨g.ts, g.off, none, 0⟩ else ⟨0, 0, some .other, 0⟩

/-! ## (b) transmit-timestamp acquisition, (c) the receive loop over clock readings -/

/-- outcome of `udp.ReadTXTimestamp(conn)` -/
inductive TxStamp where
  | kernel (t : Int) (id : Nat)
  | failed
deriving Repr, DecidableEq

/-- `cTxTime1, id, err := udp.ReadTXTimestamp(conn); if err != nil || id != 0 { cTxTime1 = <fallback> }` -/
def txTime (st : TxStamp) (fallback : Int) : Int :=
  match st with
  | .kernel t 0 => t
  | _ => fallback

/-- which clock reading replaces a missing kernel transmit timestamp -/
inductive TxFallback where
  /-- as repaired: a reading taken right before the request is handed to the kernel -/
  | preSend
  /-- before the `fix:` commit: `timebase.Now()` after `ReadTXTimestamp` gave up (≥ 1 ms after
      the transmission: its poll timeout) -/
  | postPoll
  /-- the variant: `cTxTime0`, the reading the request's wire timestamp was made from -/
  | requestReading
deriving Repr, DecidableEq

/-- number of clock readings taken before the request is handed to the kernel -/
def TxFallback.readingsBeforeSend : TxFallback → Nat
  | .preSend => 2
  | _ => 1

/-- the readings taken up to and including the transmit timestamp: `cTxTime0`, `cTxTime1` and
    the remaining readings; `none`: the clock was asked more often than readings are given -/
def txReadings (fb : TxFallback) (st : TxStamp) (rd : List Int) : Option (Int × Int × List Int) :=
  match fb, rd with
  | .preSend, now :: pre :: rest => some (now, txTime st pre, rest)
  | .postPoll, now :: rest =>
    (match st with
     | .kernel t 0 => some (now, t, rest)
     | _ => match rest with
            | post :: rest' => some (now, post, rest')
            | [] => none)
  | .requestReading, now :: rest => some (now, txTime st now, rest)
  | _, _ => none

/-- what the socket hands to one loop iteration: a datagram with the kernel's receive timestamp
    (`none`: the control message carries none — `cRxTime = timebase.Now()`), a read error, a
    datagram with non-zero flags -/
inductive XEvent (D : Type) where
  | dgram (d : D) (krx : Option Int)
  | readErr
  | badFlags
deriving Repr

/-- `numRetries != maxNumRetries && deadlineIsSet && timebase.Now().Before(deadline)`; Go
    evaluates left to right, the clock is read only when the first two conjuncts hold.
    `some (mayRetry, remaining readings)`; `none`: out of readings. -/
def retryTest (r : Nat) (deadline : Option Int) (rd : List Int) : Option (Bool × List Int) :=
  if r != maxNumRetries then
    match deadline with
    | some dl =>
      (match rd with
       | t :: rd' => some (decide (t < dl), rd')
       | [] => none)
    | none => some (false, rd)
  else some (false, rd)

/-- The receive loop with its retry counter `r` over the clock readings `rd`; `n` = events
    consumed so far. `classify canRetry cRx d` is the loop body's verdict for one datagram
    (`canRetry` is looked at by the refuted variant only). Result: outcome and the readings
    left over; `none`: out of readings. -/
def xLoop {D : Type} (classify : Bool → Int → D → Step) (deadline : Option Int) :
    (r n : Nat) → List Int → List (XEvent D) → Option (Outcome × List Int)
  | _, _, rd, [] => some (.blocked, rd)
  | r, n, rd, .readErr :: rest =>
    match retryTest r deadline rd with
    | none => none
    | some (true, rd') => xLoop classify deadline (r + 1) (n + 1) rd' rest
    | some (false, rd') => some (.error .read (n + 1), rd')
  | r, n, rd, .badFlags :: rest =>
    match retryTest r deadline rd with
    | none => none
    | some (true, rd') => xLoop classify deadline (r + 1) (n + 1) rd' rest
    | some (false, rd') => some (.error .flags (n + 1), rd')
  | r, n, rd, .dgram d krx :: rest =>
    -- cRxTime: the kernel's, else a clock reading
    match (match krx with
           | some t => some (t, rd)
           | none => match rd with
                     | t :: rd' => some (t, rd')
                     | [] => none) with
    | none => none
    | some (cRx, rd1) =>
      -- the retry test is evaluated (and the clock read) only at a refusal site
      match classify false cRx d with
      | .accept a => some (.accepted a (n + 1), rd1)
      | .fatal e => some (.error e (n + 1), rd1)
      | .panic => some (.panic (n + 1), rd1)
      | .skip e =>
        match retryTest r deadline rd1 with
        | none => none
        | some (true, rd2) => xLoop classify deadline (r + 1) (n + 1) rd2 rest
        | some (false, rd2) =>
          -- HEAD: `return time.Time{}, 0, err`. A variant that falls through at some site is
          -- given the chance to re-classify knowing that no retry is left.
          match classify true cRx d with
          | .skip e' => some (.error e' (n + 1), rd2)
          | .accept a => some (.accepted a (n + 1), rd2)
          | .fatal e' => some (.error e' (n + 1), rd2)
          | .panic => some (.panic (n + 1), rd2)

/-- refusal sites of the two receive loops, in source order (the IP loop has read, flags,
    source, size, ntsDecode, ntsProcess, origin; the SCION loop all but `source`) -/
inductive Site where
  | read | flags | source | layers | type | scmp | udplen | addr | authlen | authmac
  | size | ntsDecode | ntsProcess | origin
deriving Repr, DecidableEq

/-- the error a site returns when no retry is left -/
def Site.err : Site → ErrKind
  | .read => .read | .flags => .flags | .source => .source | .layers => .layers
  | .type => .unexpected | .scmp => .unexpected | .udplen => .unexpected | .addr => .unexpected
  | .authlen => .auth | .authmac => .auth | .size => .size | .ntsDecode => .ntsDecode
  | .ntsProcess => .ntsProcess | .origin => .unexpected

/-- the 13 sites of `measureClockOffsetSCION`, the 7 of `measureClockOffsetIP` -/
def scionSites : List Site :=
  [.read, .flags, .layers, .type, .scmp, .udplen, .addr, .authlen, .authmac, .size, .ntsDecode, .ntsProcess, .origin]
def ipSites : List Site := [.read, .flags, .source, .size, .ntsDecode, .ntsProcess, .origin]

/-- first refusal site of the NTP/NTS stage for a payload (`none`: no site refuses — the datagram
    is accepted or ends the exchange with `ValidateResponseMetadata/Timestamps`) -/
def siteNtp (cfg : Cfg) (req : Req) (p : Payload) : Option Site :=
  if p.len < 48 then some .size
  else if cfg.nts && !p.ntsDecodeOk then some .ntsDecode
  else if cfg.nts && !(p.ntsUidEq && p.ntsOpenOk) then some .ntsProcess
  else if !(req.interleaved && p.pkt.origin == req.rx) && p.pkt.origin != req.tx then some .origin
  else none

def siteIP (cfg : Cfg) (server : Nat) (req : Req) (d : IpDgram) : Option Site :=
  if d.src ≠ server then some .source else siteNtp cfg req d.payload

def siteSCION (cfg : Cfg) (sc : ScionCtx) (req : Req) (d : ScionDgram) : Option Site :=
  if !d.decodeOk then some .layers
  else if !(d.decoded.length ≥ 2 && (lastLayer d.decoded == some .udp || lastLayer d.decoded == some .scmp)) then some .type
  else if lastLayer d.decoded == some .scmp then some .scmp
  else if d.bufLen < d.udpLength then some .udplen
  else if !addrValid sc d then some .addr
  else
    let e2e := d.decoded.length ≥ 3 && secondLast d.decoded == some .e2e
    if e2e && sc.keyAvailable then
      match d.authOpt with
      | none => siteNtp cfg req d.payload
      | some a =>
        if !a.wellFormed then some .authlen
        else if a.spi == spiServer && a.alg == algCMAC then
          (if !a.macOk then some .authmac else siteNtp cfg req d.payload)
        else siteNtp cfg req d.payload
    else siteNtp cfg req d.payload

/-- The variant of the NTP/NTS stage in which the `ProcessResponse` site does not return when
    no retry is left but goes on (`if err != nil && retry() { continue }; ntsAuthenticated = true`). -/
def ntpStageNtsFallThrough (cfg : Cfg) (prev : Prev) (req : Req) (cTx1 : Int) (noRetryLeft : Bool)
    (cRx : Int) (p : Payload) : Step :=
  if noRetryLeft && cfg.nts && p.ntsDecodeOk && !(p.ntsUidEq && p.ntsOpenOk) then
    ntpStage cfg prev req cTx1 cRx { p with ntsUidEq := true, ntsOpenOk := true }
  else ntpStage cfg prev req cTx1 cRx p

/-- One whole exchange of the IP client from the first clock reading on: request, transmit
    timestamp, receive loop, `prev` update. `none`: out of readings. Result: request, cTxTime1,
    outcome, new `prev`, number of readings consumed. -/
structure XResult where
  req : Req
  cTx1 : Int
  out : Outcome
  prev : Prev
  used : Nat
deriving Repr

def xFinish (cfg : Cfg) (prev : Prev) (reference : String) (req : Req) (cTx1 : Int) (total : Nat)
    (r : Option (Outcome × List Int)) : Option XResult :=
  r.map fun (out, left) =>
    { req := req, cTx1 := cTx1, out := out, used := total - left.length,
      prev := match out with
        | .accepted a _ => updatePrev cfg prev reference cTx1 a
        | _ => prev }

def xExchangeIP (fb : TxFallback) (cfg : Cfg) (server : Nat) (prev : Prev) (reference : String)
    (deadline : Option Int) (st : TxStamp) (rd : List Int) (evs : List (XEvent IpDgram)) : Option XResult :=
  match txReadings fb st rd with
  | none => none
  | some (now, cTx1, rest) =>
    let req := mkRequest cfg prev reference now
    xFinish cfg prev reference req cTx1 rd.length
      (xLoop (fun _ cRx d => classifyIP cfg server prev req cTx1 cRx d) deadline 0 0 rest evs)

def xExchangeSCION (fb : TxFallback) (cfg : Cfg) (sc : ScionCtx) (prev : Prev) (reference : String)
    (deadline : Option Int) (st : TxStamp) (rd : List Int) (evs : List (XEvent ScionDgram)) : Option XResult :=
  match txReadings fb st rd with
  | none => none
  | some (now, cTx1, rest) =>
    let req := mkRequest cfg prev reference now
    xFinish cfg prev reference req cTx1 rd.length
      (xLoop (fun _ cRx d => classifySCION cfg sc prev req cTx1 cRx d) deadline 0 0 rest evs)

/-! ## (d) byte windows of a received SCION/UDP packet -/

abbrev Bytes := List Nat

/-- the received buffer `buf[:n]` split where the layer parser finds the UDP header: `pre` = SCION
    header and extension headers, `l4` = everything behind them (slayers does not cut the SCION
    payload to the header's PayloadLen) -/
structure Rx where
  pre : Bytes
  l4 : Bytes
deriving Repr, DecidableEq

def Rx.buf (r : Rx) : Bytes := r.pre ++ r.l4

/-- the UDP header's length field (bytes 4 and 5 of the L4 data, big endian) -/
def udpLengthField (l4 : Bytes) : Nat := l4.getD 4 0 * 256 + l4.getD 5 0

/-- `slayers.UDP.DecodeFromBytes`: `Contents = data[:8]`; `Payload = data[8:min(Length, len(data))]`
    for `Length ≥ 8`, `data[8:]` for `Length = 0`; fewer than 8 bytes or a length field 1..7 is a
    decoding error. Result: (Contents, Payload). -/
def udpDecode (l4 : Bytes) : Option (Bytes × Bytes) :=
  if l4.length < 8 then none
  else
    let len := udpLengthField l4
    if len ≥ 8 then some (l4.take 8, (l4.take len).drop 8)
    else if len = 0 then some (l4.take 8, l4.drop 8)
    else none

/-- `buf[len(buf)-int(udpLayer.Length):]` (the layer check `len(buf) < int(udpLayer.Length)`
    has passed) -/
def tailWindow (buf : Bytes) (len : Nat) : Bytes := buf.drop (buf.length - len)

/-- the layer check of the receive loop -/
def lengthAdmitted (r : Rx) : Bool := !(r.buf.length < udpLengthField r.l4)

/-- the byte strings handed to `ntp.DecodePacket`, to `nts.DecodePacket` / `nts.ProcessResponse`,
    and as `Pld` to `spao.ComputeAuthCMAC` -/
structure Windows where
  ntp : Bytes
  nts : Bytes
  spao : Bytes
deriving Repr, DecidableEq

/-- the code (as repaired): all three see what the UDP layer decoded — `udpLayer.Payload`, and
    for the packet authenticator the UDP header followed by it -/
def windows (r : Rx) : Option Windows :=
  (udpDecode r.l4).map fun (c, p) => { ntp := p, nts := p, spao := c ++ p }

/-- before the `fix:` commit: the packet authenticator was computed over the LAST `Length` bytes of
    the buffer -/
def windowsOld (r : Rx) : Option Windows :=
  (udpDecode r.l4).map fun (_, p) => { ntp := p, nts := p, spao := tailWindow r.buf (udpLengthField r.l4) }

/-- the variant: NTS, too, verified over the tail window (behind its first 8 bytes) -/
def windowsTailNts (r : Rx) : Option Windows :=
  (udpDecode r.l4).map fun (_, p) =>
    { ntp := p, nts := (tailWindow r.buf (udpLengthField r.l4)).drop 8, spao := tailWindow r.buf (udpLengthField r.l4) }

/-- a re-framed packet: UDP header `h` (8 bytes, length field `8 + |p|`), `f` with `|f| = |p|`
    inserted in front of a copy of the header and the authentic payload `p` -/
def reframed (pre h f p : Bytes) : Rx := ⟨pre, h ++ (f ++ (h ++ p))⟩

/-! ### the listener (core/server/server_scion.go runSCIONServer) -/

/-- The byte strings the SCION listener hands to `ntp.DecodePacket`, to `nts.DecodePacket` /
    `nts.ProcessRequest`, and as `Pld` into the MAC of the REQUEST's packet authenticator — as
    repaired: what the UDP layer decoded. -/
def srvWindows (r : Rx) : Option Windows := windows r

/-- before the `fix:` commit: the request MAC over the last `Length` bytes of the buffer -/
def srvWindowsOld (r : Rx) : Option Windows := windowsOld r

/-- The reply: the listener serialises the payload, then the UDP header in front of it with
    `FixLengths` (length field := 8 + |payload|, bytes 4 and 5 of the header), computes the reply
    authenticator's MAC over `buffer.Bytes()` at that point, and then puts the end-to-end extension
    and the SCION header (`pre`) in front. Result: the L4 bytes on the wire and the bytes MAC'ed. -/
def srvReply (sp dp cs : Nat × Nat) (payload : Bytes) : Bytes × Bytes :=
  let len := 8 + payload.length
  let l4 := [sp.1, sp.2, dp.1, dp.2, len / 256 % 256, len % 256, cs.1, cs.2] ++ payload
  (l4, l4)

/-! ## (e) cookie flow of one exchange -/

/-- what one call of `measureClockOffsetIP` / `…SCION` with NTS does to the fetcher's pool,
    over ghost-tagged cookies: `FetchData` (the head of the pool is sent), then `StoreCookie` for
    each cookie of the ONE datagram that passes `ProcessResponse` (`stored`; empty when the
    exchange is lost, times out after refused datagrams, or fails). `txFailed`: the kernel gave
    no transmit timestamp; `timedOut`: the call ended with the read error at the deadline. -/
structure Exch where
  stored : List Nat
  txFailed : Bool
  timedOut : Bool
deriving Repr, DecidableEq

structure Flow where
  pool : List Nat
  sent : List Nat
deriving Repr, DecidableEq

/-- `giveBack = false` is the code: nothing but authenticated cookies is ever stored.
    `giveBack = true` is the variant that hands the request's cookie back to the fetcher when the
    transmit timestamp could not be read and the exchange timed out. An empty pool means a key
    exchange (C20): nothing is sent from this pool. -/
def flowStep (giveBack : Bool) (s : Flow) (e : Exch) : Flow :=
  match NtsPool.fetchData s.pool with
  | none => s
  | some (data, rest) =>
    let c := data.take 1
    let back := if giveBack && e.txFailed && e.timedOut then c else []
    { pool := (back ++ e.stored).foldl NtsPool.storeCookie rest, sent := s.sent ++ c }

def flowRun (giveBack : Bool) (s : Flow) : List Exch → Flow
  | [] => s
  | e :: es => flowRun giveBack (flowStep giveBack s e) es

/-! ## (g) the socket of an exchange -/

/-- `lc.ListenPacket(ctx, "udp", netip.AddrPortFrom(laddr, 0).String())`: the port the clients ask
    the kernel for when they open the socket of an exchange — the literal 0 ("any free port"),
    whatever port the configured local address carries. `bindConfigured = true` is the variant that
    passes the configured address with its port. -/
def requestedPort (bindConfigured : Bool) (cfgPort : Nat) : Nat := if bindConfigured then cfgPort else 0

/-- the port the socket is bound to: the requested one, or the kernel's choice when 0 was requested -/
def boundPort (requested kernelChoice : Nat) : Nat := if requested = 0 then kernelChoice else requested

/-- local port of the socket of exchange `j`; `kernel j` = the port the kernel would pick for it -/
def socketPort (bindConfigured : Bool) (cfgPort : Nat) (kernel : Nat → Nat) (j : Nat) : Nat :=
  boundPort (requestedPort bindConfigured cfgPort) (kernel j)

/-- a datagram on its way to the client host: destination port, and (ghost) the exchange whose
    request it was sent in answer to -/
structure Wire (D : Type) where
  d : D
  dstPort : Nat
  answers : Nat

/-- what the socket bound to `port` delivers of the datagrams that arrive while it is open: those
    addressed to its port, in order (receive time and deadline verdict as the loop sees them) -/
def socketDelivers {D : Type} (port : Nat) (arriving : List (Wire D × Int × Bool)) : List (Event D) :=
  (arriving.filter fun w => w.1.dstPort == port).map fun w => Event.dgram w.1.d w.2.1 w.2.2

/-! ## (f) destination of the NTS-protected request along a history of key exchanges on one client -/

/-- key exchange data as far as the destination goes: the server name as the exchange gave it, what
    `net.ParseIP` makes of it (`none`: no IP literal), the port -/
structure KxDest where
  name : String
  parsed : Option (List Nat)
  port : Nat
deriving Repr, DecidableEq

/-- One call: the code writes `remoteAddr.IP = net.ParseIP(Server)` and `remoteAddr.Port = Port` into the
    caller's long-lived address object (`held`) unconditionally, then sends to it. Result: the address
    object afterwards and the destination (`ClientNtp.ntsDestination`). -/
def destStep (held : List Nat × Nat) (kx : KxDest) : (List Nat × Nat) × Option (List Nat × Nat) :=
  ((match kx.parsed with
    | some lit => ((unmapIP lit).getD lit, kx.port)
    | none => ([], kx.port)),
   ntsDestination held kx.parsed kx.port)

/-- the destinations of consecutive calls on one client / one address object -/
def destHistory : (List Nat × Nat) → List KxDest → List (Option (List Nat × Nat))
  | _, [] => []
  | held, kx :: rest => (destStep held kx).2 :: destHistory (destStep held kx).1 rest

/-- The variant: the parsed address (with its port) is cached in the client, keyed by the server NAME
    only, and refreshed when the association names another server. -/
def destStepNameCache (cache : Option (String × Option (List Nat × Nat))) (kx : KxDest) :
    Option (String × Option (List Nat × Nat)) × Option (List Nat × Nat) :=
  let fresh := ntsDestination ([], 0) kx.parsed kx.port
  match cache with
  | some (n, d) => if n ≠ kx.name then (some (kx.name, fresh), fresh) else (cache, d)
  | none => (some (kx.name, fresh), fresh)

def destHistoryNameCache : Option (String × Option (List Nat × Nat)) → List KxDest → List (Option (List Nat × Nat))
  | _, [] => []
  | c, kx :: rest => (destStepNameCache c kx).2 :: destHistoryNameCache (destStepNameCache c kx).1 rest

end ScionTime.ClientFlow
