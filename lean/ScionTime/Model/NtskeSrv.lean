/-
  Model/NtskeSrv.lean — the NTS-KE *server* handlers as a whole
  (core/server/ntske_ip.go handleKeyExchangeTLS + writeNTSKEErrorMsgTLS,
   core/server/ntske_scion.go handleKeyExchangeQUIC + writeNTSKEErrorMsgQUIC,
   core/server/ntske.go newNTSKEMsg with its eight EncryptWithNonce attempts).
  Core Lean only.

  One connection is a value `Conn`: everything the environment contributes — the request
  byte stream *as the transport segments it* (one chunk per successful `Read` of the
  `tls.Conn` / QUIC stream; the end of the list is EOF, i.e. the peer has half-closed or
  closed), the outcome of the TLS exporter, the local address and NTP port, the provider's
  current key and the eight nonce draws. The handler is a function from `Conn` to what it
  hands to `conn.Write` / `stream.Write` and whether it closes.

  What the code does NOT do (and the model therefore does not): it never looks at what the
  request offered. Next-protocol and AEAD records are read by `ReadData` (two body bytes
  each) and the decoded `Data` is used only as the container for the exported keys; a
  request that offers another protocol or algorithm — or nothing at all but an end-of-message
  record — is answered with the full response. The only validation is "ReadData returned no
  error". (RFC 8915 §4.1.2/§4.1.5 would have the server refuse; recorded as an observation,
  Props/C20Srv.lean `C20Srv_request_content_ignored`.)
-/
import ScionTime.Model.Ntske
import ScionTime.Model.Cookies
namespace ScionTime.NtskeSrv
open ScionTime.Ntske

/-- ntske.ErrorCodeBadRequest / ErrorCodeInternalServer (pinned in Props/C20Srv). -/
def errBadRequest : Nat := 1
def errInternalServer : Nat := 2
/-- `for range 8` in newNTSKEMsg (pinned). -/
def numCookies : Nat := 8

/-- Everything the environment contributes to one server-side key exchange. -/
structure Conn where
  /-- transport: TLS over TCP (false) or a QUIC stream over SCION (true) -/
  quic : Bool := false
  /-- QUIC only: `conn.AcceptStream` succeeded (over TLS there is no such step) -/
  streamOk : Bool := true
  /-- the request as the transport delivers it: one chunk per `Read`, end of list = EOF -/
  request : List (List Byte)
  /-- `ExportKeyingMaterial` succeeded (it fails only on a session that forbids exporters) -/
  exportOk : Bool := true
  c2s : List Byte
  s2c : List Byte
  /-- `localIP.String()` of the accepted connection, as bytes -/
  localIP : List Byte
  /-- the NTP port the server was configured with (`uint16(localPort)` goes on the wire) -/
  localPort : Nat
  /-- the outcome of the eight `EncryptWithNonce` + `Encode` attempts, in order;
      `none` = that attempt failed (it is logged and skipped) -/
  cookies : List (Option (List Byte))
deriving Repr

/-- What a handler did with the connection. -/
inductive Out where
  /-- nothing was written (QUIC: no stream was accepted); the handler returned -/
  | silent
  /-- one message handed to `Write` in a single call, then the connection / stream closed -/
  | wrote (bytes : List Byte)
deriving DecidableEq, Repr

/-- writeNTSKEErrorMsgTLS / writeNTSKEErrorMsgQUIC: a message of one error record. -/
def errorMsg (code : Nat) : List Byte := packMsg [.error code]

/-- The decision of the handler, before anything is packed. -/
inductive Verdict where
  | noStream                      -- QUIC: AcceptStream failed
  | badRequest (e : RErr)         -- ReadData failed
  | exportFailed
  | noCookie                      -- newNTSKEMsg: errNoCookie
  | respond (msg : List Rec)
deriving DecidableEq, Repr

/-- handleKeyExchangeTLS / handleKeyExchangeQUIC up to the write. The order is the code's:
    accept the stream (QUIC), `ReadData` over a `bufio.Reader` on the connection / stream,
    `ExportKeys`, `newNTSKEMsg`. Nothing of the decoded request data is used. -/
def verdict (c : Conn) : Verdict :=
  if c.quic ∧ !c.streamOk then .noStream
  else match readData c.request {} with
    | (_, some e) => .badRequest e
    | (_, none) =>
      if !c.exportOk then .exportFailed
      else match serverMsg c.localIP c.localPort (c.cookies.filterMap id) with
        | none => .noCookie
        | some msg => .respond msg

/-- The bytes written for a verdict (`defer conn.Close()` / `defer stream.Close()` follow in
    every case). -/
def Verdict.out : Verdict → Out
  | .noStream => .silent
  | .badRequest _ => .wrote (errorMsg errBadRequest)
  | .exportFailed => .wrote (errorMsg errInternalServer)
  | .noCookie => .wrote (errorMsg errInternalServer)
  | .respond msg => .wrote (packMsg msg)

/-- The handler: what is written; the connection (TLS) / the stream (QUIC) is closed in every
    case by the deferred `Close`. -/
def handle (c : Conn) : Out := (verdict c).out

/-- NOT in the code — a handler that parses the request from what a *single* `Read` of the
    connection returns (at most `lim` bytes of the first chunk) instead of handing the
    connection to `ReadData`. Kept to show that the segmentation theorem says something:
    this variant is not independent of the segmentation (Props/C20Srv). -/
def handleSingleRead (lim : Nat) (c : Conn) : Out :=
  handle { c with request := match c.request with
                             | [] => []
                             | ch :: _ => [ch.take lim] }

/-! ### The cookies (newNTSKEMsg's loop over the AEAD of Model/Cookies) -/

open ScionTime.Nts in
/-- One iteration of the cookie loop: `plaintextCookie.EncryptWithNonce(key.Value, key.ID)`
    then `Encode`. `nonce = none`: `rand.Read` failed. A failure (or, for a nonce of the wrong
    length, the library's panic — unreachable, the nonce is `make([]byte, 16)`) yields no
    cookie. -/
def sealOne (A : AEAD) (key : Bytes) (keyid : Nat) (c2s s2c : Bytes) (nonce : Option Bytes) : Option Bytes :=
  match nonce with
  | none => none
  | some n =>
    match encryptCookie A ⟨aesSivCmac256, s2c, c2s⟩ key keyid n with
    | .ok ec => some (ecEncode ec)
    | _ => none

open ScionTime.Nts in
/-- The eight attempts under the provider's current key `(keyid, key)`. -/
def sealCookies (A : AEAD) (key : Bytes) (keyid : Nat) (c2s s2c : Bytes) (nonces : List (Option Bytes)) :
    List (Option Bytes) :=
  nonces.map (sealOne A key keyid c2s s2c)

end ScionTime.NtskeSrv
