/-
  Model of the accept loops of the NTS-KE servers — core/server/ntske_ip.go `runNTSKEServerTLS`,
  core/server/ntske_scion.go `runNTSKEServerQUIC`:

      for {
          conn, err := Accept(...)           // ntske.AcceptTLSConn(listener) / listener.Accept(ctx)
          if err != nil { log; continue }    // every error: logged, next iteration at once
          go handle(conn)                    // one goroutine per connection
      }

  The loop is a function from the sequence of results the successive `Accept` calls return to the
  sequence of things it does. What a *network peer* can put into that sequence is a connection
  (`conn`): over TLS the TCP connection is accepted before any handshake byte is read (the handshake
  runs inside the handler's first Read), so aborted, silent and garbage connections all arrive as
  `conn`; Go's net package retries ECONNABORTED itself. Over QUIC `Accept` returns a connection only
  after the handshake has completed; failed handshakes and garbage datagrams never reach the loop.
  `tempErr` (an error after which Accept can succeed again: EMFILE / ENFILE / ENOBUFS — resource
  exhaustion of the host) and `closed` (listener closed, or over QUIC the context cancelled: every
  later call fails immediately, without blocking) are not produced by a peer's bytes.
  Core Lean only.
-/
namespace ScionTime.AcceptLoop

inductive Acc (κ : Type) where
  | conn (c : κ)
  | tempErr
  | closed
deriving Repr, DecidableEq

/-- does this call of Accept block until something arrives? (`closed`: fails at once) -/
def Acc.blocks {κ : Type} : Acc κ → Bool
  | .closed => false
  | _ => true

inductive Ev (κ : Type) where
  | spawn (c : κ)        -- go handle(conn)
  | logErr               -- "failed to accept client" / "failed to accept connection"; continue
deriving Repr, DecidableEq

/-- one iteration of the loop body -/
def body {κ : Type} : Acc κ → Ev κ
  | .conn c => .spawn c
  | _ => .logErr

/-- the loop over the first results of Accept (it has no `return` and no `break`: it consumes
    every result it is given) -/
def loop {κ : Type} (l : List (Acc κ)) : List (Ev κ) := l.map body

def Ev.spawned? {κ : Type} : Ev κ → Option κ
  | .spawn c => some c
  | .logErr => none

def Acc.conn? {κ : Type} : Acc κ → Option κ
  | .conn c => some c
  | _ => none

/-- the connections handed to a handler goroutine, in order -/
def served {κ : Type} (l : List (Acc κ)) : List κ := (loop l).filterMap Ev.spawned?

/-- answers of the server: each served connection is answered by its own handler from its own
    stream (`handle` = NtskeSrv.handle for the real servers) -/
def answers {κ α : Type} (handle : κ → α) (l : List (Acc κ)) : List α := (served l).map handle

end ScionTime.AcceptLoop
