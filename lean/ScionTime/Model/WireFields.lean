/-
  Fixed-layout big-endian wire fields: the shape shared by net/ntp/ntp.go
  (EncodePacket/DecodePacket) and net/csptp/csptp.go (Encode*/Decode*).

  A layout is a list of field widths in bytes; an encoder writes, for every field,
  `byte(v >> 8(w-1)), …, byte(v)`; a decoder reads `uint(b[i])<<8(w-1) | … | uint(b[i+w-1])`.
  Bytes are `Nat`s with an explicit range predicate (`AllBytes`), field values are `Nat`s with
  an explicit range predicate (`FieldsOk`).  Go's slice indexing is *checked*: `readFields`
  returns `panic index` where `b[i]` would be out of range.

  Core Lean only.
-/
namespace ScionTime.Wire

/-- What a Go function did: returned a value, returned an error (small enum), or panicked
    (`lib.PanicClass` of the recovered value). -/
inductive Outcome (α : Type) where
  | ok (v : α)
  | err (e : String)
  | panic (cls : String)
deriving Repr, DecidableEq

def Outcome.isPanic {α : Type} : Outcome α → Bool
  | .panic _ => true
  | _ => false

/-- every element is a byte -/
def AllBytes (b : List Nat) : Prop := ∀ x ∈ b, x < 256

instance (b : List Nat) : Decidable (AllBytes b) := by unfold AllBytes; infer_instance

/-- `byte(v >> 8(w-1)), …, byte(v >> 8), byte(v)` -/
def beBytes : Nat → Nat → List Nat
  | 0, _ => []
  | w + 1, v => (v / 256 ^ w % 256) :: beBytes w v

/-- `uint(b0) << 8(n-1) | … | uint(b(n-1))` (the operands occupy disjoint bits: `|` is `+`) -/
def beVal : List Nat → Nat
  | [] => 0
  | b :: bs => b * 256 ^ bs.length + beVal bs

/-- sum of the widths of a layout -/
def layoutLen : List Nat → Nat
  | [] => 0
  | w :: ws => w + layoutLen ws

/-- encoder: the bytes of all fields, in order -/
def encodeFields : List Nat → List Nat → List Nat
  | w :: ws, v :: vs => beBytes w v ++ encodeFields ws vs
  | _, _ => []

/-- decoder without bounds checks (`List.take`/`drop` are total) -/
def fieldsOf : List Nat → List Nat → List Nat
  | [], _ => []
  | w :: ws, b => beVal (b.take w) :: fieldsOf ws (b.drop w)

/-- decoder with Go's checked indexing: a field that does not fit the remaining bytes is an
    index-out-of-range panic. -/
def readFields : List Nat → List Nat → Outcome (List Nat)
  | [], _ => .ok []
  | w :: ws, b =>
    if b.length < w then .panic "index"
    else match readFields ws (b.drop w) with
      | .ok vs => .ok (beVal (b.take w) :: vs)
      | o => o

/-- value `v` fits a field of `w` bytes, pointwise over a layout -/
def FieldsOk : List Nat → List Nat → Prop
  | [], [] => True
  | w :: ws, v :: vs => v < 256 ^ w ∧ FieldsOk ws vs
  | _, _ => False

/-- two's complement: `uintN(x)` for a signed `x` of `bits` bits -/
def toU (bits : Nat) (x : Int) : Nat := (x % (2 ^ bits : Int)).toNat
/-- two's complement: `intN(v)` for an unsigned `v < 2^bits` -/
def ofU (bits : Nat) (v : Nat) : Int := if v < 2 ^ (bits - 1) then (v : Int) else (v : Int) - (2 ^ bits : Int)

/-- `n` zero bytes -/
def zeros (n : Nat) : List Nat := List.replicate n 0

/-- In-place encoders (`EncodeMessage(b, …)`, `Encode*TLV(b, …)`): the bounds hint
    `_ = b[need-1]` panics on a short buffer; otherwise the first bytes are overwritten and the
    rest of the buffer is left as it was. -/
def writeInto (b : List Nat) (need : Nat) (bytes : List Nat) : Outcome (List Nat) :=
  if b.length < need then .panic "index" else .ok (bytes ++ b.drop bytes.length)

end ScionTime.Wire
