/-
  Model of core/client/client.go MeasureClockOffsetSCION: sticky path assignment for
  clients in interleaved mode, reset of the others, random fill through crypto.Sample,
  participant count, one value per participant, fault-tolerant midpoint, errNoPath,
  and (repaired, F12) an error when no per-path measurement succeeded.
  Core Lean only.

  A path is (position in the offered list, fingerprint). Fingerprints are compared as strings
  exactly like `snet.Fingerprint(p).String() == pf`; "" is the fingerprint of a path without
  interface metadata (the intra-AS path of timeservice.go).
-/
import ScionTime.Model.Sample
namespace ScionTime.Multipath
open ScionTime.Sample

abbrev Fp := String

/-- the part of `SCIONClient` the assignment reads -/
structure Client where
  mode : Bool        -- InterleavedMode (configuration)
  refSet : Bool      -- prev.reference != ""
  prevIl : Bool      -- prev.interleaved
  prevPath : Fp      -- prev.path
  deriving Repr, DecidableEq

/-- SCIONClient.InInterleavedMode -/
def Client.inInterleavedMode (c : Client) : Bool := c.mode && c.refSet && c.prevIl

/-- SCIONClient.InterleavedModePath -/
def Client.ipath (c : Client) : Fp := if c.inInterleavedMode then c.prevPath else ""

abbrev Path := Nat × Fp

/-- `ps[j] = ps[len(ps)-1]; ps = ps[:len(ps)-1]` -/
def swapRemove (ps : List Path) (j : Nat) : List Path :=
  match ps.getLast? with
  | some l => (ps.set j l).dropLast
  | none => ps

/-- which guard decides whether a client looks for its previous path:
    the code as found tests `pf != ""` (F11: a previous path with empty fingerprint is never
    kept); the repaired code tests `c.InInterleavedMode()`. -/
def wantsSticky (f11fixed : Bool) (c : Client) : Bool :=
  if f11fixed then c.inInterleavedMode else c.ipath != ""

/-- body of the first loop for one client: the first offered path whose fingerprint equals
    the client's previous one is taken out of the candidate list -/
def stickyStep (f11fixed : Bool) (c : Client) (ps : List Path) : Option Path × List Path :=
  if wantsSticky f11fixed c then
    match ps.findIdx? (fun p => p.2 == c.ipath) with
    | some j =>
      match ps[j]? with
      | some p => (some p, swapRemove ps j)
      | none => (none, ps)
    | none => (none, ps)
  else (none, ps)

/-- first loop of MeasureClockOffsetSCION: `sps` and the remaining candidates -/
def stickyLoop (f11fixed : Bool) : List Client → List Path → List (Option Path) × List Path
  | [], ps => ([], ps)
  | c :: cs, ps =>
    let r := stickyStep f11fixed c ps
    let r' := stickyLoop f11fixed cs r.2
    (r.1 :: r'.1, r'.2)

/-- third loop: the `n` sampled paths `ps[0..n)` go to the clients without a path, in order -/
def fill : List (Option Path) → List Path → List (Option Path)
  | [], _ => []
  | some p :: sps, qs => some p :: fill sps qs
  | none :: sps, q :: qs => some q :: fill sps qs
  | none :: sps, [] => none :: fill sps []

def countNone (sps : List (Option Path)) : Nat := (sps.filter Option.isNone).length
def countSome (sps : List (Option Path)) : Nat := (sps.filter Option.isSome).length

inductive AssignRes where
  | ok (sps : List (Option Path)) (rest : Stream)
  | errSample (e : Err)
  | errNoPath (rest : Stream)
  | panic (msg : String)
  deriving Repr

/-- the offered list with positions -/
def offeredPaths (offered : List Fp) : List Path := (List.range offered.length).zip offered

/-- second and third loop (Sample, errNoPath, fill) on the outcome `st` of the first loop -/
def assignFrom (st : List (Option Path) × List Path) (cancelled : Bool) (s : Stream) :
    AssignRes × List Bool :=
  let reset := st.1.map Option.isNone
  let nsps := countSome st.1
  match sample ((st.1.length : Int) - nsps) st.2.length cancelled s with
  | .err e => (.errSample e, reset)
  | .panic p => (.panic p, reset)
  | .ok (n, picks, rest) =>
    if nsps + n = 0 then (.errNoPath rest, reset)
    else (.ok (fill st.1 ((applyPicks st.2 picks).take n)) rest, reset)

/-- the assignment part of MeasureClockOffsetSCION (everything before the goroutines):
    a pure function of the clients' state, the offered fingerprints and the random stream.
    Also returns which clients were reset (ResetInterleavedMode + Filter.Reset): that happens
    in the first loop, before any error is returned. -/
def assign (f11fixed : Bool) (cs : List Client) (offered : List Fp) (cancelled : Bool) (s : Stream) :
    AssignRes × List Bool :=
  assignFrom (stickyLoop f11fixed cs (offeredPaths offered)) cancelled s

/-! ### The round -/

inductive RoundRes where
  | ok (off : Int)
  | errSample (e : Err)
  | errNoPath
  | errNoMeasurement     -- repaired code only (F12)
  | panic (msg : String)
  deriving Repr, DecidableEq

structure RoundOut where
  res : RoundRes
  /-- per client: position (in the offered list) of the path it probed -/
  assigned : List (Option Nat)
  reset : List Bool
  /-- per client: number of exchanges started (3 tries for InterleavedMode clients whose
      exchanges do not end in interleaved mode, 1 otherwise) -/
  probes : List Nat
  deriving Repr

/-- The per-path goroutine's attempt loop in MeasureClockOffsetSCION (`for j := range n { t, o, e :=
    ntpc.measureClockOffsetSCION(…); if e == nil { ts, off, err = t, o, e; … } else { if nerr == j
    { err = e }; nerr++ } }`), for a client that does not enter interleaved mode inside the loop:
    `outs[j]` = attempt `j` succeeded. State: the reported error (`none` = nil, `some k` = the
    error of attempt `k`), the attempt whose value is reported, `nerr`, `j`. Result: (reported
    error is nil, attempt whose timestamp/offset is reported). -/
def attemptLoopGo : List Bool → Option Nat → Option Nat → Nat → Nat → Bool × Option Nat
  | [], err, val, _, _ => (err.isNone, val)
  | true :: rest, _, _, nerr, j => attemptLoopGo rest none (some j) nerr (j + 1)
  | false :: rest, err, val, nerr, j =>
    attemptLoopGo rest (if nerr == j then some j else err) val (nerr + 1) (j + 1)

def attemptLoop (outs : List Bool) : Bool × Option Nat := attemptLoopGo outs none none 0 0

/-- the seeded variant "report the most recent error" (`err = e` on every failure) -/
def attemptLoopLastErrGo : List Bool → Option Nat → Option Nat → Nat → Bool × Option Nat
  | [], err, val, _ => (err.isNone, val)
  | true :: rest, _, _, j => attemptLoopLastErrGo rest none (some j) (j + 1)
  | false :: rest, _, val, j => attemptLoopLastErrGo rest (some j) val (j + 1)

def attemptLoopLastErr (outs : List Bool) : Bool × Option Nat := attemptLoopLastErrGo outs none none 0

/-- one value per participant: the offset of a successful exchange (`some off`) or the zero
    measurement left in `ms` for a failed one (collectMeasurements stores successes only) -/
def values (sps : List (Option Path)) (succ : List (Option Int)) : List Int :=
  (sps.zip succ).filterMap fun (p, r) => if p.isSome then some (r.getD 0) else none

def successes (sps : List (Option Path)) (succ : List (Option Int)) : Nat :=
  ((sps.zip succ).filter fun (p, r) => p.isSome && r.isSome).length

/-- MeasureClockOffsetSCION. `succ[i]` is the outcome of client i's per-path exchange(s) if it
    takes part (`none` = all its exchanges failed); `ftm` is measurements.FaultTolerantMidpoint
    on offsets (builder c02c18's model; a parameter here). `f12fixed = false` is the code as
    found: the midpoint of the zero-initialised slice is returned even if nothing succeeded. -/
def round (ftm : List Int → Int) (f11fixed f12fixed : Bool) (cs : List Client) (offered : List Fp)
    (cancelled : Bool) (s : Stream) (succ : List (Option Int)) : RoundOut :=
  match assign f11fixed cs offered cancelled s with
  | (.errSample e, reset) => ⟨.errSample e, cs.map fun _ => none, reset, cs.map fun _ => 0⟩
  | (.panic p, reset) => ⟨.panic p, cs.map fun _ => none, reset, cs.map fun _ => 0⟩
  | (.errNoPath _, reset) => ⟨.errNoPath, cs.map fun _ => none, reset, cs.map fun _ => 0⟩
  | (.ok sps _, reset) =>
    let probes := (cs.zip sps).map fun (c, p) => if p.isSome then (if c.mode then 3 else 1) else 0
    let res :=
      if f12fixed && successes sps succ == 0 then RoundRes.errNoMeasurement
      else RoundRes.ok (ftm (values sps succ))
    ⟨res, sps.map (·.map (·.1)), reset, probes⟩

/-! ### The caller's path list in memory, and the Pather

`MeasureClockOffsetSCION` consumes its `ps` argument IN PLACE: the sticky loop removes a path with
`ps[j] = ps[len(ps)-1]; ps = ps[:len(ps)-1]` and `crypto.Sample`'s picks overwrite `ps[dst] = ps[src]`.
The functions above take the list by value; the definitions below say what these writes leave in
the caller's backing array, and model `scion.Pather.Paths` (net/scion/pather.go), which hands out
a COPY of its table — so that the writes never reach the table. -/

/-- `round` over paths that carry their own identity (position in some original table) instead
    of the positions of a fingerprint list; `round … offered = roundP … (offeredPaths offered)`. -/
def roundP (ftm : List Int → Int) (f11fixed f12fixed : Bool) (cs : List Client) (ps : List Path)
    (cancelled : Bool) (s : Stream) (succ : List (Option Int)) : RoundOut :=
  match assignFrom (stickyLoop f11fixed cs ps) cancelled s with
  | (.errSample e, reset) => ⟨.errSample e, cs.map fun _ => none, reset, cs.map fun _ => 0⟩
  | (.panic p, reset) => ⟨.panic p, cs.map fun _ => none, reset, cs.map fun _ => 0⟩
  | (.errNoPath _, reset) => ⟨.errNoPath, cs.map fun _ => none, reset, cs.map fun _ => 0⟩
  | (.ok sps _, reset) =>
    let probes := (cs.zip sps).map fun (c, p) => if p.isSome then (if c.mode then 3 else 1) else 0
    let res :=
      if f12fixed && successes sps succ == 0 then RoundRes.errNoMeasurement
      else RoundRes.ok (ftm (values sps succ))
    ⟨res, sps.map (·.map (·.1)), reset, probes⟩

/-- what the swap-removes of the first loop leave BEHIND the shrinking slice in its backing
    array: each removal shortens the slice by one and the array keeps the old last element there
    (`ps.drop r.2.length` is `[last]` after a removal, `[]` otherwise); most recent first. -/
def stickyLoopTail (f11fixed : Bool) : List Client → List Path → List Path → List Path
  | [], _, tail => tail
  | c :: cs, ps, tail =>
    let r := stickyStep f11fixed c ps
    stickyLoopTail f11fixed cs r.2 (ps.drop r.2.length ++ tail)

/-- contents of the caller's array (all slots of the slice that was passed in) when
    MeasureClockOffsetSCION returns: the candidates as left by the sticky loop and overwritten by
    Sample's picks (writes through a slice cannot go beyond its length), then the abandoned tail -/
def arrayAfter (f11fixed : Bool) (cs : List Client) (ps : List Path) (cancelled : Bool) (s : Stream) :
    List Path :=
  let st := stickyLoop f11fixed cs ps
  let tail := stickyLoopTail f11fixed cs ps []
  match sample ((st.1.length : Int) - countSome st.1) st.2.length cancelled s with
  | .ok (_, picks, _) => applyPicks st.2 picks ++ tail
  | _ => st.2 ++ tail

/-- memory: path arrays by address -/
abbrev Mem := List (List Path)

/-- `MeasureClockOffsetSCION(…, ps)` with `ps` = the array at address `a`: the result is a
    function of the array's contents; the in-place writes land in that array and nowhere else. -/
def roundAt (ftm : List Int → Int) (f11fixed f12fixed : Bool) (m : Mem) (a : Nat) (cs : List Client)
    (cancelled : Bool) (s : Stream) (succ : List (Option Int)) : RoundOut × Mem :=
  let ps := m.getD a []
  (roundP ftm f11fixed f12fixed cs ps cancelled s succ, m.set a (arrayAfter f11fixed cs ps cancelled s))

/-- `Pather.Paths` as in net/scion/pather.go: `append(make([]snet.Path, 0, len(paths)), paths...)`
    — a new array with the table's contents -/
def pathsCopy (m : Mem) (table : Nat) : Mem × Nat := (m ++ [m.getD table []], m.length)

/-- the ALIASED variant (not the code): hand out the table's own array -/
def pathsAlias (m : Mem) (table : Nat) : Mem × Nat := (m, table)

/-- `ntpReferenceClockSCION.MeasureClockOffset` for a remote AS: ask the Pather, run the round -/
def refclkRound (paths : Mem → Nat → Mem × Nat) (ftm : List Int → Int) (f11fixed f12fixed : Bool)
    (m : Mem) (table : Nat) (cs : List Client) (cancelled : Bool) (s : Stream) (succ : List (Option Int)) :
    RoundOut × Mem :=
  let (m1, a) := paths m table
  roundAt ftm f11fixed f12fixed m1 a cs cancelled s succ

/-- one round's inputs: the clients' state when the round starts, the random stream, the
    per-client outcome of the exchanges -/
structure RoundIn where
  cs : List Client
  cancelled : Bool := false
  s : Stream
  succ : List (Option Int)

/-- consecutive rounds on one Pather (between two refreshes of its table) -/
def refclkHistory (paths : Mem → Nat → Mem × Nat) (ftm : List Int → Int) (f11fixed f12fixed : Bool) :
    Mem → Nat → List RoundIn → List RoundOut × Mem
  | m, _, [] => ([], m)
  | m, table, r :: rs =>
    let o := refclkRound paths ftm f11fixed f12fixed m table r.cs r.cancelled r.s r.succ
    let rest := refclkHistory paths ftm f11fixed f12fixed o.2 table rs
    (o.1 :: rest.1, rest.2)

/-- tiny local copy of measurements.FaultTolerantMidpoint on offsets, for the driver only
    (no int64 wrap-around: the harness scripts offsets well inside ±2^62; the real function,
    including overflow, is C02's subject) -/
def ftmLocal (l : List Int) : Int :=
  let a := (l.mergeSort (fun x y => decide (x ≤ y))).toArray
  let n := a.size
  let f := (n - 1) / 3
  let x := a.getD f 0
  let y := a.getD (n - 1 - f) 0
  x + Int.tdiv (y - x) 2

end ScionTime.Multipath
