/-
  Model/MainCfg.lean — configuration plumbing and constructors of /repo/timeservice.go
  (package main), function by function:

    ntskeServerFromRemoteAddr          → `ntskeServerFromRemoteAddr`
    net.SplitHostPort (Go library)     → `splitHostPort`      (ASCII strings)
    configureIPClientNTS               → `configureIPClientNTS`
    configureSCIONClientNTS            → `configureSCIONClientNTS`
    newNTPReferenceClockIP             → `newRefClockIP`
    newNTPReferenceClockSCION          → `newRefClockSCION`   (objects on an explicit heap:
                                          which `*SCIONClient` / filter is which object matters)
    tlsConfig                          → `tlsConfig`
    dscp, clockDrift, syncConfig       → `dscp`, `clockDrift`, `syncConfig`

  `logbase.Fatal` (log, then os.Exit(1)) is the outcome `.fatal msg`; `panic(msg)` is `.panic msg`.
  Loggers are modelled by "is the logger that was passed in" (Bool); addresses by their
  canonical text ("" = the zero value). Core Lean only.
-/
import ScionTime.Model.F64
import ScionTime.Model.Sync
import ScionTime.Model.FreqDrift
namespace ScionTime.MainCfg
open ScionTime.F64

inductive Res (α : Type) where
  | ok (a : α)
  | fatal (msg : String)
  | panic (msg : String)
deriving Repr, DecidableEq

/-! ### Strings -/

/-- `strings.Split(s, string(c))` on characters: `""` gives `[""]`, `"a,"` gives `["a", ""]` -/
def splitOnChar (c : Char) : List Char → List (List Char)
  | [] => [[]]
  | x :: xs =>
    match splitOnChar c xs with
    | [] => [[]]
    | hd :: tl => if x == c then [] :: hd :: tl else (x :: hd) :: tl

/-- `ntskeServerFromRemoteAddr`: second comma-separated field, panic when there is none -/
def ntskeServerFromRemoteAddr (remoteAddr : String) : Res String :=
  match splitOnChar ',' remoteAddr.toList with
  | _ :: s :: _ => .ok (String.ofList s)
  | _ => .panic "remote address has wrong format"

def lastIndexOf (l : List Char) (c : Char) : Option Nat :=
  (l.reverse.findIdx? (· == c)).map fun k => l.length - 1 - k

/-- Go's `net.SplitHostPort` (`none` = any of its errors): the port starts after the last
    colon; a host in brackets must end just before that colon; no other colon outside brackets,
    no stray bracket. -/
def splitHostPortL (l : List Char) : Option (List Char × List Char) :=
  match lastIndexOf l ':' with
  | none => none                                            -- missing port
  | some i =>
    if l.head? = some '[' then
      match l.findIdx? (· == ']') with
      | none => none                                        -- missing ']'
      | some e =>
        if e + 1 = l.length then none                       -- missing port
        else if e + 1 = i then
          if (l.drop 1).contains '[' then none              -- unexpected '['
          else if (l.drop (e + 1)).contains ']' then none   -- unexpected ']'
          else some ((l.take e).drop 1, l.drop (i + 1))
        else none                                           -- too many colons / missing port
    else
      let host := l.take i
      if host.contains ':' then none                        -- too many colons
      else if l.contains '[' then none
      else if l.contains ']' then none
      else some (host, l.drop (i + 1))

def splitHostPort (s : String) : Option (String × String) :=
  (splitHostPortL s.toList).map fun (h, p) => (String.ofList h, String.ofList p)

/-! ### Client configuration records -/

/-- the fields of `tls.Config` that the callers set (everything else stays zero) -/
structure TLSCfg where
  serverName : String := ""
  nextProtos : List String := []
  minVersion : Nat := 0
  maxVersion : Nat := 0
  insecureSkipVerify : Bool := false
deriving Repr, DecidableEq

/-- `tls.VersionTLS13` -/
def versionTLS13 : Nat := 0x0304

/-- `ntske.Fetcher` configuration -/
structure Fetcher where
  tls : TLSCfg := {}
  port : String := ""
  log : Bool := false
  quic : Bool := false
  quicDaemon : String := ""
  quicLocal : String := ""
  quicRemote : String := ""
deriving Repr, DecidableEq

abbrev Ref := Nat

structure IPClient where
  log : Bool := false
  dscp : Nat := 0
  interleavedMode : Bool := false
  authEnabled : Bool := false
  fetcher : Fetcher := {}
  /-- the Ntimed filter object, if any -/
  filter : Option Ref := none
  histogram : Bool := false
deriving Repr, DecidableEq

structure SCIONClient where
  log : Bool := false
  dscp : Nat := 0
  interleavedMode : Bool := false
  authEnabled : Bool := false
  ntsEnabled : Bool := false
  drkeyFetcher : Bool := false
  fetcher : Fetcher := {}
  filter : Option Ref := none
  histogram : Bool := false
  /-- `prev.reference`, `prev.path`, `prev.interleaved` (the state of the previous exchange
      that the multipath assignment reads) -/
  prevReference : String := ""
  prevPath : String := ""
  prevInterleaved : Bool := false
deriving Repr, DecidableEq

/-- the TLS client configuration both `configure…NTS` functions build -/
def clientTLS (host : String) (insecure : Bool) : TLSCfg :=
  { nextProtos := ["ntske/1"], insecureSkipVerify := insecure, serverName := host,
    minVersion := versionTLS13 }

def msgSplit : String := "failed to split NTS-KE host and port"

/-- `configureIPClientNTS` -/
def configureIPClientNTS (c : IPClient) (ntskeServer : String) (insecure : Bool) : Res IPClient :=
  match splitHostPort ntskeServer with
  | none => .fatal msgSplit
  | some (host, port) =>
    .ok { c with authEnabled := true,
                 fetcher := { c.fetcher with tls := clientTLS host insecure, port := port, log := true } }

/-- `configureSCIONClientNTS` -/
def configureSCIONClientNTS (c : SCIONClient) (ntskeServer : String) (insecure : Bool)
    (daemonAddr localAddr remoteAddr : String) : Res SCIONClient :=
  match splitHostPort ntskeServer with
  | none => .fatal msgSplit
  | some (host, port) =>
    .ok { c with ntsEnabled := true,
                 fetcher := { c.fetcher with tls := clientTLS host insecure, port := port, log := true,
                                             quic := true, quicDaemon := daemonAddr,
                                             quicLocal := localAddr, quicRemote := remoteAddr } }

def authModeNTS : String := "nts"

/-! ### Objects -/

/-- the heap of the constructors: `*client.SCIONClient` objects by reference (index), and a
    counter of filter objects (`client.NewNtimedFilter` returns a new object every time) -/
structure Heap where
  clients : List SCIONClient := []
  nfilters : Nat := 0
deriving Repr, DecidableEq

def Heap.allocClient (h : Heap) (c : SCIONClient) : Heap × Ref :=
  ({ h with clients := h.clients ++ [c] }, h.clients.length)

def Heap.allocFilter (h : Heap) : Heap × Ref :=
  ({ h with nfilters := h.nfilters + 1 }, h.nfilters)

def Heap.get? (h : Heap) (r : Ref) : Option SCIONClient := h.clients[r]?

def Heap.modify (h : Heap) (r : Ref) (f : SCIONClient → SCIONClient) : Heap :=
  { h with clients := h.clients.modify r f }

structure RefClockIP where
  log : Bool
  ntpc : IPClient
  localAddr : String
  remoteAddr : String
deriving Repr, DecidableEq

structure RefClockSCION where
  log : Bool
  ntpcs : List Ref
  localAddr : String
  remoteAddr : String
  pather : Bool := false
deriving Repr, DecidableEq

/-- `scionRefClockNumClient` -/
def scionRefClockNumClient : Nat := 7

structure CtorArgs where
  daemonAddr : String := ""
  localAddr : String
  remoteAddr : String
  dscp : Nat
  authModes : List String
  ntskeServer : String
  insecure : Bool

/-- `newNTPReferenceClockIP` (filter object 0 of a private heap) -/
def newRefClockIP (a : CtorArgs) : Res RefClockIP :=
  let c : IPClient := { log := true, dscp := a.dscp, interleavedMode := true }
  let c := { c with filter := some 0 }
  if a.authModes.contains authModeNTS then
    match configureIPClientNTS c a.ntskeServer a.insecure with
    | .ok c => .ok ⟨true, c, a.localAddr, a.remoteAddr⟩
    | .fatal m => .fatal m
    | .panic m => .panic m
  else .ok ⟨true, c, a.localAddr, a.remoteAddr⟩

/-- one iteration of the loop of `newNTPReferenceClockSCION`:
    ```
    c.ntpcs[i] = &client.SCIONClient{Log: log, DSCP: dscp, InterleavedMode: true}
    c.ntpcs[i].Filter = client.NewNtimedFilter(log)
    if slices.Contains(authModes, authModeNTS) { configureSCIONClientNTS(c.ntpcs[i], …) }
    ``` -/
def ctorStep (a : CtorArgs) (h : Heap) : Res (Heap × Ref) :=
  let (h, r) := h.allocClient { log := true, dscp := a.dscp, interleavedMode := true }
  let (h, f) := h.allocFilter
  let h := h.modify r fun c => { c with filter := some f }
  if a.authModes.contains authModeNTS then
    match h.get? r with
    | none => .panic "unreachable"
    | some c =>
      match configureSCIONClientNTS c a.ntskeServer a.insecure a.daemonAddr a.localAddr a.remoteAddr with
      | .ok c' => .ok (h.modify r fun _ => c', r)
      | .fatal m => .fatal m
      | .panic m => .panic m
  else .ok (h, r)

def ctorLoop (a : CtorArgs) : Nat → Heap → List Ref → Res (Heap × List Ref)
  | 0, h, acc => .ok (h, acc)
  | n + 1, h, acc =>
    match ctorStep a h with
    | .ok (h, r) => ctorLoop a n h (acc ++ [r])
    | .fatal m => .fatal m
    | .panic m => .panic m

/-- `newNTPReferenceClockSCION` -/
def newRefClockSCION (a : CtorArgs) (h : Heap) : Res (Heap × RefClockSCION) :=
  match ctorLoop a scionRefClockNumClient h [] with
  | .ok (h, rs) => .ok (h, ⟨true, rs, a.localAddr, a.remoteAddr, false⟩)
  | .fatal m => .fatal m
  | .panic m => .panic m

/-- The ALIASED variant (not the code): the client is configured once before the loop and the
    loop stores the address of that one object in every slot (`ntpc := &ntpcCfg`); only the
    filter is "given" per iteration — to the same object. Kept for the counterexample theorems. -/
def newRefClockSCIONShared (a : CtorArgs) (h : Heap) : Res (Heap × RefClockSCION) :=
  let (h, r) := h.allocClient { log := true, dscp := a.dscp, interleavedMode := true }
  let cfgd : Res Heap :=
    if a.authModes.contains authModeNTS then
      match h.get? r with
      | none => .panic "unreachable"
      | some c =>
        match configureSCIONClientNTS c a.ntskeServer a.insecure a.daemonAddr a.localAddr a.remoteAddr with
        | .ok c' => .ok (h.modify r fun _ => c')
        | .fatal m => .fatal m
        | .panic m => .panic m
    else .ok h
  match cfgd with
  | .ok h =>
    let h := (List.range scionRefClockNumClient).foldl (fun h _ =>
      let (h, f) := h.allocFilter
      h.modify r fun c => { c with filter := some f }) h
    .ok (h, ⟨true, List.replicate scionRefClockNumClient r, a.localAddr, a.remoteAddr, false⟩)
  | .fatal m => .fatal m
  | .panic m => .panic m

/-! ### What the harness observes of a SCION reference clock -/

/-- `SCIONClient.InInterleavedMode` -/
def SCIONClient.inInterleavedMode (c : SCIONClient) : Bool :=
  c.interleavedMode && c.prevReference != "" && c.prevInterleaved

/-- `SCIONClient.ResetInterleavedMode` as far as the assignment state is concerned -/
def SCIONClient.resetInterleavedMode (c : SCIONClient) : SCIONClient :=
  { c with prevReference := "", prevPath := "", prevInterleaved := false }

/-- number objects by first occurrence: pairwise distinct objects give `[0,1,2,…]` -/
def canonIds {α : Type} [DecidableEq α] (xs : List α) : List Nat :=
  go xs []
where
  go : List α → List α → List Nat
    | [], _ => []
    | x :: rest, seen =>
      match seen.findIdx? (· == x) with
      | some k => k :: go rest seen
      | none => seen.length :: go rest (seen ++ [x])

/-- mark client `i`'s previous exchange with the path `i` (in order), as the hook does -/
def markAll (h : Heap) (rs : List Ref) : Heap :=
  (rs.zipIdx).foldl (fun h (r, i) =>
    h.modify r fun c => { c with prevReference := "verif-ref", prevPath := toString i, prevInterleaved := true }) h

structure Observed where
  n : Nat
  ids : List Nat
  fids : List Nat
  marks : List String
  kept : Nat
  uniform : Bool
  cfg0 : Option SCIONClient
deriving Repr, DecidableEq

/-- a client's configuration without the identity of its filter object (its kind stays) -/
def erase (c : Option SCIONClient) : Option SCIONClient :=
  c.map fun c => { c with filter := c.filter.map fun _ => 0 }

def observe (h : Heap) (k : RefClockSCION) : Observed :=
  let cs := k.ntpcs.map h.get?
  let h1 := markAll h k.ntpcs
  let marks := k.ntpcs.map fun r => ((h1.get? r).map (·.prevPath)).getD "?"
  let h2 := match k.ntpcs with
    | r :: _ => h1.modify r SCIONClient.resetInterleavedMode
    | [] => h1
  let kept := ((k.ntpcs.drop 1).filter fun r => ((h2.get? r).map (·.inInterleavedMode)).getD false).length
  { n := k.ntpcs.length, ids := canonIds k.ntpcs, fids := canonIds (cs.map fun c => c.bind (·.filter)),
    marks := marks, kept := kept, uniform := (cs.map erase).all (· == (cs.map erase).head?.getD none), cfg0 := cs.head?.getD none }

/-! ### NTS-KE server side -/

/-- `tlsConfig(cfg)`: certificate through `GetCertificate` (reloading cache), no static one -/
def tlsConfig (serverName certFile keyFile : String) : Res TLSCfg :=
  if serverName = "" ∨ certFile = "" ∨ keyFile = "" then
    .fatal "missing parameters in configuration for NTSKE server"
  else .ok { serverName := serverName, nextProtos := ["ntske/1"], minVersion := versionTLS13 }

/-! ### dscp, clockDrift, syncConfig -/

/-- `dscp(cfg)` -/
def dscp (v : Nat) : Res Nat :=
  if v > 63 then .fatal "invalid differentiated services codepoint value specified in config" else .ok v

/-- `clockDrift(cfg)`: `cfg.ClockDrift < 0` is false for NaN -/
def clockDrift (v : F64) : Res Int :=
  if F64.lt v (F64.zero false) then .fatal "invalid clock drift value specified in config"
  else .ok (F64.toDuration v)

/-- the five values of `svcConfig` that `syncConfig` reads (0 when the key is absent) -/
structure SvcSync where
  referenceClockImpact : F64 := .zero false
  peerClockImpact : F64 := .zero false
  peerClockCutoff : F64 := .zero false
  syncTimeout : F64 := .zero false
  syncInterval : F64 := .zero false
deriving Repr

/-- `sync.Config` -/
structure SyncConfig where
  referenceClockImpact : F64
  peerClockImpact : F64
  peerClockCutoff : Int
  syncTimeout : Int
  syncInterval : Int
deriving Repr, DecidableEq

/-- the defaults of `syncConfig` -/
def defaultReferenceClockImpact : F64 := F64.ofConst 125 100
def defaultPeerClockImpact : F64 := F64.ofConst 25 10
def defaultPeerClockCutoff : Int := 50 * 1000
def defaultSyncTimeout : Int := 500 * 1000000
def defaultSyncInterval : Int := 1000 * 1000000

/-- `x == 0` on float64 (true for −0, false for NaN) -/
def isZeroF (x : F64) : Bool := F64.beq x (.zero false)

/-- `syncConfig(cfg)`: factors copied, seconds converted with `timemath.Duration`
    (`time.Duration(s * 1e9)`, truncating), then every field that is zero gets its default -/
def syncConfig (s : SvcSync) : SyncConfig :=
  let cutoff := F64.toDuration s.peerClockCutoff
  let timeout := F64.toDuration s.syncTimeout
  let interval := F64.toDuration s.syncInterval
  { referenceClockImpact := if isZeroF s.referenceClockImpact then defaultReferenceClockImpact else s.referenceClockImpact,
    peerClockImpact := if isZeroF s.peerClockImpact then defaultPeerClockImpact else s.peerClockImpact,
    peerClockCutoff := if cutoff = 0 then defaultPeerClockCutoff else cutoff,
    syncTimeout := if timeout = 0 then defaultSyncTimeout else timeout,
    syncInterval := if interval = 0 then defaultSyncInterval else interval }

/-- the `sync.Config` part of the start-up configuration of `sync.Run` (Model/Sync.lean) -/
def toRunCfg (c : SyncConfig) (drift : Int64) (nRef nPeer : Nat) : Sync.Cfg :=
  { refImpact := c.referenceClockImpact, peerImpact := c.peerClockImpact,
    cutoff := Int64.ofInt c.peerClockCutoff, timeout := Int64.ofInt c.syncTimeout,
    interval := Int64.ofInt c.syncInterval, drift := drift, nRef := nRef, nPeer := nPeer }

/-! ### from the configuration file to the arguments of `sync.Run`

`runServer` / `runClient` (timeservice.go):
```
lclk := clocks.NewSystemClock(log, clockDrift(cfg))   // drift field = clockDrift(cfg).Seconds()
syncCfg := syncConfig(cfg)
go sync.Run(log, syncCfg, lclk, adj, refClocks, peerClocks)
```
and `Run` reads the clock through `clk.Drift(cfg.SyncInterval)` only (besides `Sleep`). -/

/-- `clocks.NewSystemClock(log, d).Drift(interval)`: what `Run`'s two caps are computed from, for a
    configured drift of `d` ns per second (0 = absent = `clocks.UnknownDrift`). -/
def runDrift (clockDriftNs interval : Int) : Int :=
  FreqDrift.drift (FreqDrift.clockDrift clockDriftNs) interval

/-- the start-up configuration of `Run` as the binary assembles it from the six configuration
    values (`clock_drift` and the five of `syncConfig`) and the numbers of clocks; `fatal` when
    `clockDrift` refuses the file. -/
def startCfg (s : SvcSync) (clockDriftCfg : F64) (nRef nPeer : Nat) : Res Sync.Cfg :=
  match clockDrift clockDriftCfg with
  | .ok d =>
    let c := syncConfig s
    .ok (toRunCfg c (Int64.ofInt (runDrift d c.syncInterval)) nRef nPeer)
  | .fatal m => .fatal m
  | .panic m => .panic m

/-- keys of the TOML configuration file (struct tags of `svcConfig`) that carry the values
    above; `loadConfig` refuses unknown keys -/
def keyReferenceClockImpact : String := "reference_clock_impact"
def keyPeerClockImpact : String := "peer_clock_impact"
def keyPeerClockCutoff : String := "peer_clock_cutoff"
def keySyncTimeout : String := "sync_timeout"
def keySyncInterval : String := "sync_interval"
def keyClockDrift : String := "clock_drift"
def keyDSCP : String := "dscp"

end ScionTime.MainCfg
