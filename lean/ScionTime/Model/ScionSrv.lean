/-
  Model/ScionSrv.lean — decision logic of the SCION listener
  (core/server/server_scion.go `runSCIONServer`, as started by `StartSCIONServer` and
  `StartSCIONDispatcher`) over an *abstract parsed packet*, and net/scion/auth.go on byte lists.

  What is inside the model: the order of the checks, which packets are dropped / answered /
  forwarded, every field of the answer as a function of the request, the comparison of the
  authenticator's MAC with the computed one, and the explicit `panic` sites reachable from
  network bytes.  What is an oracle input (computed by the harness with the real libraries and
  passed in the op line): `Path.Reverse()` (`rev`), `spao.ComputeAuthCMAC` (`mac`), the verdict
  of the NTP/NTS layer on the payload (`ntpOk`), key availability (`fetchOk`).
  gopacket/slayers parsing and serialisation, sockets and timestamps are outside — except for the
  forwarding branch, whose handling of the extension headers is modelled (`Wire`, `fwdWire`).

  `handleG false` is the code as found (F4: one datagram kills the listener), `handleG true`
  the code after the `fix:` commits.  Core Lean only.
-/
namespace ScionTime.ScionSrv

/-! ## net/scion/auth.go -/

def EndhostPort : Nat := 30041
def optDataLen : Nat := 28
def metadataLen : Nat := 12
def macLen : Nat := 16
def algorithm : Nat := 0
/-- `PacketAuthSPIClient = hostHost<<17 | receiverSide<<16 | 123`. -/
def spiClient : Nat := 1 <<< 17 ||| 1 <<< 16 ||| 123
/-- `PacketAuthSPIServer = hostHost<<17 | senderSide<<16 | 123`. -/
def spiServer : Nat := 1 <<< 17 ||| 0 <<< 16 ||| 123

/-- Result of a function that may panic. -/
inductive Res (α : Type) where
  | ok (a : α)
  | panic (cls : String)
  deriving Repr, DecidableEq

/-- `PacketAuthOptMetadata`: panics unless the option data is exactly 28 bytes;
    SPI = bytes 0..3 big endian, algorithm = byte 4. -/
def authMeta (d : List Nat) : Res (Nat × Nat) :=
  if d.length ≠ optDataLen then .panic "explicit:unexpected_authenticator_option_data"
  else .ok (d.getD 3 0 + d.getD 2 0 * 256 + d.getD 1 0 * 65536 + d.getD 0 0 * 16777216, d.getD 4 0)

/-- `PacketAuthOptMAC`: panics unless 28 bytes; the MAC is bytes 12..28. -/
def authMAC (d : List Nat) : Res (List Nat) :=
  if d.length ≠ optDataLen then .panic "explicit:unexpected_authenticator_option_data"
  else .ok (d.drop metadataLen)

/-- `PreparePacketAuthOpt` on the option's existing data: index panic when shorter than 28
    bytes (the first store `authOptData[0]` or a later one is out of range); otherwise bytes
    0..3 = SPI big endian, byte 4 = algorithm, bytes 5..27 zero, the rest untouched. -/
def authPrepare (d : List Nat) (spi alg : Nat) : Res (List Nat) :=
  if d.length < optDataLen then .panic "index"
  else .ok ([spi / 16777216 % 256, spi / 65536 % 256, spi / 256 % 256, spi % 256, alg % 256]
            ++ List.replicate 23 0 ++ d.drop optDataLen)

/-! ## the abstract packet -/

inductive L4 where
  | udp
  | scmp (type code : Nat)
  | other            -- neither SCION/UDP nor SCMP last: "unexpected type or structure"
  deriving Repr, DecidableEq

structure Pkt where
  lastHop : Nat              -- underlay source of the datagram (opaque)
  tc : Nat                   -- traffic class
  srcIA : Nat
  dstIA : Nat
  srcType : Nat              -- address type/length nibble
  dstType : Nat
  srcAddr : List Nat         -- RawSrcAddr
  dstAddr : List Nat         -- RawDstAddr
  pathType : Nat
  path : List Nat            -- raw path bytes (opaque)
  rev : Option (Nat × List Nat)  -- oracle: Path.Reverse(): (type, bytes) of the result; none = error
  l4 : L4
  srcPort : Nat
  dstPort : Nat
  udpLenOk : Bool            -- ¬ (len(buf) < udpLayer.Length)
  e2e : Bool                 -- an end-to-end extension directly precedes the L4 header
  auth : Option (List Nat)   -- OptData of the first authenticator option in it
  mac : Option (List Nat)    -- oracle: MAC the server computes; none = ComputeAuthCMAC fails
  payload : List Nat         -- UDP / SCMP payload
  ntpOk : Bool               -- oracle: the NTP/NTS layer accepts the payload and produces a response
  /- extension headers in full (forwarding branch; `e2e`, `auth` above are what the serving branch reads) -/
  hbh : Option (List Nat) := none        -- the packet has a hop-by-hop extension: its bytes after the NextHdr field (opaque)
  opts : List (Nat × List Nat) := []     -- the non-padding options (type, data) of the end-to-end extension, in order
  stamp : Bool := true                   -- a kernel receive timestamp came with the datagram (`len(oob) != 0`)
  deriving Repr, DecidableEq

/-- A `NextHdr` field, as far as the listener tells values apart. -/
inductive Next where
  | hbh | e2e | udp
  deriving Repr, DecidableEq

/-- An end-to-end option of a forwarded packet. -/
inductive EOpt where
  | recv (type : Nat) (data : List Nat)  -- option of the received packet, type and data unchanged
  | ownTs                                -- added by the dispatcher: type `OptTypeTimestamp`, data = the rx ancillary data
  deriving Repr, DecidableEq

/-- What the forwarding branch serialises between the SCION header and the UDP header. -/
structure Wire where
  next : Next                            -- `scionLayer.NextHdr` as written
  hbh : Option (Next × List Nat)         -- hop-by-hop extension written: its NextHdr field and its remaining bytes
  e2e : Option (List EOpt)               -- end-to-end extension written (NextHdr = UDP): its non-padding options
  deriving Repr, DecidableEq

/-- The chain of NextHdr fields announces exactly the headers that follow: an end host parses the
    datagram as `SCION [HBH] [E2E] UDP`. -/
def Wire.parses (w : Wire) : Bool :=
  match w.hbh, w.e2e with
  | none, none => w.next == .udp
  | none, some _ => w.next == .e2e
  | some (n, _), none => w.next == .hbh && n == .udp
  | some (n, _), some _ => w.next == .hbh && n == .e2e

def EOpt.received? : EOpt → Option (Nat × List Nat)
  | .recv t d => some (t, d)
  | .ownTs => none

/-- The received options among the forwarded ones, in order. -/
def Wire.received (w : Wire) : List (Nat × List Nat) := (w.e2e.getD []).filterMap EOpt.received?

/-- `scionLayer.NextHdr` of the received packet. -/
def recvNext (p : Pkt) : Next := if p.hbh.isSome then .hbh else if p.e2e then .e2e else .udp

def recvOpts (p : Pkt) : List EOpt := p.opts.map fun o => .recv o.1 o.2

/-- The forwarding branch **as found** (`if scionLayer.NextHdr != slayers.End2EndClass { e2eLayer =
    slayers.EndToEndExtn{} … }`, `if scionLayer.NextHdr == slayers.End2EndClass { e2eLayer.SerializeTo }`,
    the hop-by-hop layer is a `HopByHopExtnSkipper` and never serialised): with a receive timestamp a
    packet whose first extension is hop-by-hop gets a fresh end-to-end extension holding the timestamp
    option only; without one nothing is serialised for it while NextHdr keeps announcing it. -/
def fwdWireOld (p : Pkt) : Wire :=
  if p.stamp then
    if recvNext p ≠ .e2e then { next := .e2e, hbh := none, e2e := some [.ownTs] }
    else { next := .e2e, hbh := none, e2e := some (recvOpts p ++ [.ownTs]) }
  else if recvNext p = .e2e then { next := .e2e, hbh := none, e2e := some (recvOpts p) }
  else { next := recvNext p, hbh := none, e2e := none }

/-- The forwarding branch after the repair: the hop-by-hop extension is written back as received,
    the end-to-end extension keeps its options, and the dispatcher's timestamp option is appended
    (to a new extension if there was none) iff a receive timestamp exists. -/
def fwdWire (p : Pkt) : Wire :=
  let recvd : Option (List EOpt) := if p.e2e then some (recvOpts p) else none
  let e2e : Option (List EOpt) := if p.stamp then some (recvd.getD [] ++ [.ownTs]) else recvd
  let after : Next := if e2e.isSome then .e2e else .udp
  { next := if p.hbh.isSome then .hbh else after, hbh := p.hbh.map fun b => (after, b), e2e := e2e }

structure Cfg where
  connPort : Nat             -- port the socket is bound to
  localHostPort : Nat        -- service port (StartSCIONServer: for both socket groups; dispatcher: EndhostPort)
  dscp : Nat
  fetcher : Bool             -- DRKey fetcher present (StartSCIONServer) or nil (dispatcher)
  mockKeys : Bool            -- USE_MOCK_KEYS
  dcNil : Bool               -- daemon connector is nil (daemonAddr = "" or connect failed)
  fetchOk : Bool             -- oracle: the daemon delivers the key (when asked)
  deriving Repr, DecidableEq

inductive RPayload where
  | echo (bytes : List Nat)  -- request payload, unchanged
  | ntpResponse              -- what the NTP/NTS layer produced (other properties)
  deriving Repr, DecidableEq

structure Reply where
  nextHop : Nat
  tc : Nat
  srcIA : Nat
  dstIA : Nat
  srcType : Nat
  dstType : Nat
  srcAddr : List Nat
  dstAddr : List Nat
  pathType : Nat
  path : List Nat
  l4 : L4                    -- udp, or scmp with the reply type
  srcPort : Nat
  dstPort : Nat
  auth : Option (List Nat)   -- metadata part (12 bytes) of the reply's authenticator; its MAC is an oracle
  payload : RPayload
  deriving Repr, DecidableEq

structure Fwd where
  toAddr : List Nat
  toPort : Nat
  pkt : Pkt                  -- SCION header, UDP ports and payload as received
  wire : Wire                -- extension headers as written
  deriving Repr, DecidableEq

inductive Outcome where
  | drop (reason : String)
  | reply (r : Reply)
  | forward (f : Fwd)
  | panic (cls : String)
  deriving Repr, DecidableEq

def scmpEchoRequest : Nat := 128
def scmpEchoReply : Nat := 129
def scmpTracerouteRequest : Nat := 130
def scmpTracerouteReply : Nat := 131

/-- `netip.AddrFromSlice` succeeds exactly on 4 and 16 bytes. -/
def addrOk (a : List Nat) : Bool := a.length == 4 || a.length == 16

/-- `dscp << 2` on a uint8. -/
def tcOfDscp (dscp : Nat) : Nat := dscp * 4 % 256

/-- Result of `Fetcher.FetchHostASKey` as the listener uses it. -/
inductive Key where
  | ok | error | nilPanic
  deriving Repr, DecidableEq

def fetchKey (fixed : Bool) (cfg : Cfg) : Key :=
  if cfg.mockKeys then .ok
  else if cfg.dcNil then (if fixed then .error else .nilPanic)
  else if cfg.fetchOk then .ok else .error

/-- Outcome of the DRKey check: continue (authenticated or not), drop, or panic. -/
inductive AuthRes where
  | go (authenticated : Bool)
  | drop (reason : String)
  | panic (cls : String)
  deriving Repr, DecidableEq

def authCheck (fixed : Bool) (cfg : Cfg) (p : Pkt) : AuthRes :=
  if cfg.fetcher && p.e2e then
    match p.auth with
    | none => .go false
    | some d =>
      if d.length ≠ optDataLen then
        (if fixed then .drop "auth-option-length" else .panic "explicit:unexpected_authenticator_option_data")
      else
        match authMeta d with
        | .panic c => .panic c
        | .ok (spi, alg) =>
          if spi = spiClient ∧ alg = algorithm then
            match fetchKey fixed cfg with
            | .nilPanic => .panic "nil"
            | .error => .go false          -- logged; the request is served unauthenticated
            | .ok =>
              match p.mac with
              | none => if fixed then .drop "mac-error" else .panic "explicit:mac"
              | some m => if d.drop metadataLen = m then .go true else .drop "bad-mac"
          else .go false
  else .go false

/-- The reply header common to SCMP and NTP replies. -/
def mkReply (p : Pkt) (fixed : Bool) (rt : Nat) (rp : List Nat) : Reply :=
  { nextHop := p.lastHop, tc := p.tc,
    srcIA := p.dstIA, dstIA := p.srcIA, srcType := p.dstType, dstType := p.srcType,
    srcAddr := p.dstAddr, dstAddr := p.srcAddr,
    pathType := if fixed then rt else p.pathType, path := rp,
    l4 := .other, srcPort := 0, dstPort := 0, auth := none, payload := .echo p.payload }

/-- Metadata the server writes into the reply's authenticator
    (`PreparePacketAuthOpt(authOpt, PacketAuthSPIServer, PacketAuthAlgorithm)`). -/
def replyAuthMeta (d : List Nat) : List Nat :=
  match authPrepare d spiServer algorithm with
  | .ok x => x.take metadataLen
  | .panic _ => []

/-- Reply to an SCMP echo / traceroute request: same layer with the reply type, code 0,
    payload echoed; the request's traffic class; no extension headers. -/
def scmpReply (p : Pkt) (fixed : Bool) (t rt : Nat) (rp : List Nat) : Reply :=
  { mkReply p fixed rt rp with
    l4 := .scmp (if t = scmpEchoRequest then scmpEchoReply else scmpTracerouteReply) 0 }

/-- Reply to an accepted NTP request. -/
def ntpReply (cfg : Cfg) (p : Pkt) (fixed authenticated : Bool) (rt : Nat) (rp : List Nat) : Reply :=
  { mkReply p fixed rt rp with
    tc := tcOfDscp cfg.dscp, l4 := .udp,
    srcPort := p.dstPort, dstPort := p.srcPort,
    auth := if authenticated then (p.auth.map replyAuthMeta) else none,
    payload := .ntpResponse }

/-- One iteration of the receive loop after a successful `DecodeLayers`. -/
def handleG (fixed : Bool) (cfg : Cfg) (p : Pkt) : Outcome :=
  match p.l4 with
  | .other => .drop "type"
  | .scmp t _ =>
    if t = scmpEchoRequest ∨ t = scmpTracerouteRequest then
      match p.rev with
      | none => if fixed then .drop "reverse" else .panic "explicit:reverse"
      | some (rt, rp) => .reply (scmpReply p fixed t rt rp)
    else .drop "scmp-type"
  | .udp =>
    if !p.udpLenOk then .drop "udp-length"
    else if !addrOk p.srcAddr then
      (if fixed then .drop "src-addr" else .panic "explicit:unexpected_IP_address_byte_slice")
    else if !addrOk p.dstAddr then
      (if fixed then .drop "dst-addr" else .panic "explicit:unexpected_IP_address_byte_slice")
    else if p.dstPort ≠ cfg.localHostPort then
      if cfg.connPort ≠ EndhostPort ∨ p.dstPort = EndhostPort then .drop "forward-port"
      else .forward { toAddr := p.dstAddr, toPort := p.dstPort, pkt := p, wire := fwdWire p }
    else if cfg.localHostPort = EndhostPort then .drop "endhost-port"
    else
      match authCheck fixed cfg p with
      | .panic c => .panic c
      | .drop r => .drop r
      | .go authenticated =>
        if !p.ntpOk then .drop "ntp"
        else
          match p.rev with
          | none => if fixed then .drop "reverse" else .panic "explicit:reverse"
          | some (rt, rp) => .reply (ntpReply cfg p fixed authenticated rt rp)

/-- Identity of the host-to-host DRKey the listener verifies a request under:
    `FetchHostASKey(SrcIA := pkt.DstIA, DstIA := pkt.SrcIA, SrcHost := dstAddr)` followed by
    `DeriveHostHostKey(·, srcAddr)` — a function of the packet's *own* addressing only: server
    IA and **addressed** server host, client IA and client host.  The oracle `Pkt.mac` is the
    MAC under this key.  `Fetcher`'s per-IA cache of host-AS keys must be transparent: whatever
    was served before, a packet is checked under `keyOf` of itself (the model is a pure function
    of `(cfg, pkt)`; the key histories of harness/cmd/c13 tie this to the code). -/
structure KeyId where
  serverIA : Nat
  serverHost : List Nat
  clientIA : Nat
  clientHost : List Nat
  deriving Repr, DecidableEq

def keyOf (p : Pkt) : KeyId :=
  { serverIA := p.dstIA, serverHost := p.dstAddr, clientIA := p.srcIA, clientHost := p.srcAddr }

/-- The code as found. -/
def handleOld : Cfg → Pkt → Outcome := handleG false
/-- The code after the `fix:` commits. -/
def handle : Cfg → Pkt → Outcome := handleG true

/-- The listener with the forwarding branch as found (everything else as repaired). -/
def handleFwdOld (cfg : Cfg) (p : Pkt) : Outcome :=
  match handle cfg p with
  | .forward f => .forward { f with wire := fwdWireOld p }
  | o => o

/-- The option lists of a packet are consistent: options only inside an end-to-end extension, and
    `auth` is the data of the first authenticator option (type 2 = `slayers.OptTypeAuthenticator`). -/
def Pkt.extWF (p : Pkt) : Prop :=
  (p.e2e = false → p.opts = []) ∧ p.auth = (p.opts.find? (fun o => o.1 == 2)).map (·.2)

instance (p : Pkt) : Decidable p.extWF := by unfold Pkt.extWF; infer_instance

/-- Data of the first authenticator option of a forwarded packet. -/
def Wire.auth (w : Wire) : Option (List Nat) := (w.received.find? (fun o => o.1 == 2)).map (·.2)

/-- The request passed the DRKey check as authenticated. -/
def verified (cfg : Cfg) (p : Pkt) : Prop := authCheck true cfg p = .go true

/-- `StartSCIONServer(daemonAddr, localHost{Port = svc})`: both socket groups get the service port. -/
def serverCfg (svc connPort dscp : Nat) (mock dcNil fetchOk : Bool) : Cfg :=
  { connPort := connPort, localHostPort := svc, dscp := dscp, fetcher := true,
    mockKeys := mock, dcNil := dcNil, fetchOk := fetchOk }

/-- `StartSCIONDispatcher`: one socket on the end-host port, no fetcher. -/
def dispatcherCfg : Cfg :=
  { connPort := EndhostPort, localHostPort := EndhostPort, dscp := 0, fetcher := false,
    mockKeys := false, dcNil := true, fetchOk := false }

/-- A listener goroutine handling a sequence of datagrams: one outcome per datagram, each that
    of `handle` on the datagram alone (no state is carried from one packet to the next as far
    as serve / drop / forward decisions and reply fields are concerned). -/
def serve (cfg : Cfg) (history : List Pkt) : List Outcome := history.map (handle cfg)

end ScionTime.ScionSrv
