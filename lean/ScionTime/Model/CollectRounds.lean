/-
  Model/CollectRounds.lean — SEVERAL measurement rounds on one `ReferenceClockClient`
  (core/client/client.go `MeasureClockOffsets`, called round after round by core/sync.Run),
  with the goroutines that outlive a round: the senders that had not returned by the round's
  deadline ("stragglers") and the round's drain goroutine. Core Lean only.

  What the code does, and the model mirrors: every call of `MeasureClockOffsets` makes its OWN
  channel (`msc := make(chan measurements.Measurement)` is a local of the function; the client
  struct holds the guard word only — pinned by `C16_pin_channel_is_local`), starts one goroutine
  per clock sending on THAT channel, and `collectMeasurements(ctx, ms, msc)` receives from THAT
  channel and hands it to the drain goroutine it starts on return. So a round is a complete
  `Collect.St` of its own — its `sending` list is "blocked on this round's channel" — and the
  rounds share nothing but the virtual clock and the entry guard:

  * `start r`   a new call is entered. Enabled when every earlier collector has returned (the
                caller is sequential — `Run` waits for the round's result — and the CAS guard
                `numOpsInProgress` refuses an overlapping call, C16_second_collection_refused)
                and `len(ms) = len(refclks)` (else the entry panics, C16_entry).
  * `inRound k c`  one goroutine of round `k` — a sender, its collector, its drain goroutine, its
                context's deadline timer — takes the step `c` of `Collect.step` (not a tick):
                rounds older than the current one keep running.
  * `tick t`    nothing can run in ANY round: the clock advances, not beyond the earliest pending
                timer of any round (the caller's own sleep between rounds ends at some such
                instant; so, unlike in a single round, `t` need not be a timer).
-/
import ScionTime.Model.Collect
namespace ScionTime.CollectRounds
open ScionTime.Collect

/-- the arguments of one call `MeasureClockOffsets(ctx, refclks, ms)` -/
structure RoundSpec where
  deadline : Int
  senders : List Sender
  ms0 : List Msg
deriving Repr

/-- a round that has been entered: its arguments, its entry instant (ghosts), its state -/
structure Round where
  spec : RoundSpec
  t0 : Int
  st : St
deriving Repr

/-- all rounds entered so far on one client, oldest first, and the shared virtual clock -/
structure Multi where
  now : Int
  rounds : List Round
deriving Repr

inductive MChoice where
  | start (r : RoundSpec)
  | inRound (k : Nat) (c : Choice)
  | tick (t : Int)
deriving Repr

def isTick : Choice → Bool
  | .tick _ => true
  | _ => false

def returned (s : St) : Bool :=
  match s.phase with
  | .loop => false
  | .done _ => true

/-- every collector has returned: no call of `MeasureClockOffsets` is in progress -/
def allReturned (m : Multi) : Bool := m.rounds.all (fun r => returned r.st)

def mtimers (m : Multi) : List Int := m.rounds.flatMap (fun r => timers r.st)

def mbusy (m : Multi) : Bool := m.rounds.any (fun r => busy r.st)

def mstep (m : Multi) : MChoice → Option Multi
  | .start r =>
    if allReturned m ∧ r.ms0.length = r.senders.length then
      some { m with rounds := m.rounds ++ [{ spec := r, t0 := m.now, st := init m.now r.deadline r.senders r.ms0 }] }
    else none
  | .inRound k c =>
    if isTick c then none else
    match m.rounds[k]? with
    | some r =>
      match step r.st c with
      | some s' => some { m with rounds := m.rounds.set k { r with st := s' } }
      | none => none
    | none => none
  | .tick t =>
    if ¬ mbusy m ∧ m.now < t ∧ (mtimers m).all (fun u => decide (t ≤ u)) then
      some { now := t, rounds := m.rounds.map (fun r => { r with st := { r.st with now := t } }) }
    else none

/-- run a global schedule; `none` if it takes a step that is not enabled -/
def mrun (m : Multi) : List MChoice → Option Multi
  | [] => some m
  | c :: rest => match mstep m c with
    | some m' => mrun m' rest
    | none => none

/-- a fresh client at instant `t` -/
def minit (t : Int) : Multi := { now := t, rounds := [] }

end ScionTime.CollectRounds
