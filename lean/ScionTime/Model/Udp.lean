/-
  Model of net/udp/udp_linux.go: TimestampFromOOBData — the walk over control messages
  (cmsg) that extracts a receive timestamp.  Besides kernel-produced ancillary data this
  function is fed with *network* bytes: the SCION client passes the content of the
  timestamp option of a received packet to it (core/client/client_scion.go), so its
  totality is part of property C08.

  Layout (linux/amd64): Cmsghdr = Len uint64 | Level int32 | Type int32 (little endian),
  16 bytes; CmsgSpace(n) = 16 + align8 n.  Bytes are `Nat`s < 256.
-/
namespace ScionTime.Udp

inductive Outcome where
  | ok (sec nsec : Int)          -- time.Unix(sec, nsec): (Unix(), Nanosecond())
  | errUnexpectedData
  | errNotFound
  | panicSlice                   -- slice bounds out of range (Go runtime panic)
  | panicExplicit                -- panic("unexpected timestamping behavior")
  | fuel                         -- model artefact: never returned when fuel ≥ length
deriving DecidableEq, Repr

def sizeofCmsghdr : Nat := 16
def solSocket : Int := 1
def soTimestampingNew : Int := 65
def scmTimestampNs : Int := 35

def align8 (n : Nat) : Nat := (n + 7) / 8 * 8
/-- `unix.CmsgSpace n` -/
def cmsgSpace (n : Nat) : Nat := 16 + align8 n

/-- little-endian unsigned value of the `n` bytes at offset `off` (missing bytes read 0;
    every use below is guarded by a length check). -/
def leU (b : List Nat) (off n : Nat) : Nat :=
  (List.range n).foldl (fun acc i => acc + (b.getD (off + i) 0) * 256 ^ i) 0

def toSigned (bits : Nat) (v : Nat) : Int :=
  if v ≥ 2 ^ (bits - 1) then (v : Int) - (2 ^ bits : Nat) else v

def leI64 (b : List Nat) (off : Nat) : Int := toSigned 64 (leU b off 8)
def leI32 (b : List Nat) (off : Nat) : Int := toSigned 32 (leU b off 4)

def wrap64 (x : Int) : Int := (x + 9223372036854775808) % 18446744073709551616 - 9223372036854775808

/-- `time.Unix(sec, nsec)` observed through `Unix()` and `Nanosecond()`; Go normalises the
    nanoseconds into [0, 10^9) with truncating division and int64 wrap-around of seconds. -/
def timeUnix (sec nsec : Int) : Outcome :=
  if nsec < 0 ∨ nsec ≥ 1000000000 then
    let n := Int.tdiv nsec 1000000000
    let sec1 := wrap64 (sec + n)
    let nsec1 := nsec - n * 1000000000
    if nsec1 < 0 then .ok (wrap64 (sec1 - 1)) (nsec1 + 1000000000) else .ok sec1 nsec1
  else .ok sec nsec

/-- `TimestampFromOOBData` (after the `fix:` for finding F10: inconsistent timestamp
    triples and a control message whose aligned length overruns the buffer are reported as
    errUnexpectedData instead of panicking). `strict = false` gives the function as it was
    at the pinned commit. -/
def walkGen (fixed : Bool) : Nat → List Nat → Outcome
  | fuel, oob =>
    if oob.length < cmsgSpace 0 then .errNotFound else
    match fuel with
    | 0 => .fuel
    | fuel + 1 =>
      let hlen := leU oob 0 8
      let level := leI32 oob 8
      let typ := leI32 oob 12
      if hlen < sizeofCmsghdr ∨ hlen > oob.length then .errUnexpectedData else
      if level = solSocket ∧ typ = soTimestampingNew then
        if hlen ≠ cmsgSpace 48 then .errUnexpectedData else
        let sec0 := leI64 oob 16
        let nsec0 := leI64 oob 24
        let sec1 := leI64 oob 32
        let nsec1 := leI64 oob 40
        let sec2 := leI64 oob 48
        let nsec2 := leI64 oob 56
        if sec2 ≠ 0 ∨ nsec2 ≠ 0 then
          if sec0 ≠ 0 ∨ nsec0 ≠ 0 ∨ sec1 ≠ 0 ∨ nsec1 ≠ 0 then
            (if fixed then .errUnexpectedData else .panicExplicit)
          else timeUnix sec2 nsec2
        else
          if sec1 ≠ 0 ∨ nsec1 ≠ 0 then
            (if fixed then .errUnexpectedData else .panicExplicit)
          else timeUnix sec0 nsec0
      else if level = solSocket ∧ typ = scmTimestampNs then
        if hlen ≠ cmsgSpace 16 then .errUnexpectedData else
        timeUnix (leI64 oob 16) (leI64 oob 24)
      else
        let adv := cmsgSpace hlen - cmsgSpace 0
        if adv > oob.length then (if fixed then .errUnexpectedData else .panicSlice)
        else walkGen fixed fuel (oob.drop adv)

/-- the repaired function, with enough fuel for any input -/
def timestampFromOOBData (oob : List Nat) : Outcome := walkGen true oob.length oob
/-- the function at the pinned commit -/
def timestampFromOOBDataOld (oob : List Nat) : Outcome := walkGen false oob.length oob

end ScionTime.Udp
