/-
  Model of net/udp/udp_linux.go: timestampFromOOBData (lower case) — the walk over the control
  messages of the socket's ERROR QUEUE that extracts a transmit timestamp and the id of the
  datagram it belongs to. Its only caller is ReadTXTimestamp, which passes `oob[:oobn]` as
  filled by `recvmsg(fd, …, MSG_ERRQUEUE)`: kernel ancillary data, never bytes of a peer.
  Unlike its exported twin (Model/Udp.lean, finding F10) it has no `n > len(oob)` check before
  advancing and keeps `panic("unexpected timestamping behavior")`.

  Layout (linux/amd64): Cmsghdr = Len uint64 | Level int32 | Type int32 (16 bytes);
  SockExtendedErr = Errno uint32 | Origin uint8 | Type uint8 | Code uint8 | Pad uint8 |
  Info uint32 | Data uint32 (16 bytes). Core Lean only.
-/
import ScionTime.Model.Udp
namespace ScionTime.UdpTx
open ScionTime.Udp

inductive TxOutcome where
  | ok (sec nsec : Int) (id : Nat)   -- time.Unix(sec, nsec) observed through Unix(), Nanosecond(); seerr.Data
  | errUnexpectedData
  | errNotFound
  | panicSlice                       -- oob[n:] with n > len(oob)
  | panicExplicit                    -- panic("unexpected timestamping behavior")
  | fuel                             -- model artefact
deriving DecidableEq, Repr

def solIP : Int := 0
def ipRecvErr : Int := 11
def solIPv6 : Int := 41
def ipv6RecvErr : Int := 25
def enomsg : Nat := 42
def soEeOriginTimestamping : Nat := 4
def sizeofSockExtendedErr : Nat := 16

/-- loop state: `tsSet`/`ts`, `idSet`/`id` -/
structure St where
  ts : Option (Int × Int) := none
  id : Option Nat := none
deriving DecidableEq, Repr

def finish (st : St) : TxOutcome :=
  match st.ts, st.id with
  | some (s, n), some i => .ok s n i
  | _, _ => .errNotFound

def unixPair (sec nsec : Int) : Int × Int :=
  match timeUnix sec nsec with
  | .ok a b => (a, b)
  | _ => (0, 0)     -- timeUnix always returns .ok (C08Udp.timeUnix_ok)

/-- the `for unix.CmsgSpace(0) <= len(oob)` loop -/
def walk : Nat → St → List Nat → TxOutcome
  | fuel, st, oob =>
    if oob.length < cmsgSpace 0 then finish st else
    match fuel with
    | 0 => .fuel
    | fuel + 1 =>
      let hlen := leU oob 0 8
      let level := leI32 oob 8
      let typ := leI32 oob 12
      if hlen < sizeofCmsghdr ∨ hlen > oob.length then .errUnexpectedData else
      let adv := cmsgSpace hlen - cmsgSpace 0
      let next (st : St) : TxOutcome :=
        if adv > oob.length then .panicSlice else walk fuel st (oob.drop adv)
      if level = solSocket then
        if typ = soTimestampingNew then
          if hlen ≠ cmsgSpace 48 then .errUnexpectedData else
          let sec0 := leI64 oob 16
          let nsec0 := leI64 oob 24
          let sec1 := leI64 oob 32
          let nsec1 := leI64 oob 40
          let sec2 := leI64 oob 48
          let nsec2 := leI64 oob 56
          if sec2 ≠ 0 ∨ nsec2 ≠ 0 then
            if sec0 ≠ 0 ∨ nsec0 ≠ 0 ∨ sec1 ≠ 0 ∨ nsec1 ≠ 0 then .panicExplicit
            else next { st with ts := some (unixPair sec2 nsec2) }
          else
            if sec1 ≠ 0 ∨ nsec1 ≠ 0 then .panicExplicit
            else next { st with ts := some (unixPair sec0 nsec0) }
        else next st
      else if (level = solIP ∧ typ = ipRecvErr) ∨ (level = solIPv6 ∧ typ = ipv6RecvErr) then
        if hlen < cmsgSpace sizeofSockExtendedErr then .errUnexpectedData else
        if leU oob 16 4 ≠ enomsg then .errUnexpectedData else
        if leU oob 20 1 ≠ soEeOriginTimestamping then .errUnexpectedData else
        next { st with id := some (leU oob 28 4) }
      else next st

/-- timestampFromOOBData(oob) -/
def txTimestamp (oob : List Nat) : TxOutcome := walk oob.length {} oob

/-- The kernel's contract for the control buffer it hands to recvmsg (net/core/scm.c put_cmsg): a
    chain of control messages, each with `cmsg_len ≥ sizeof(cmsghdr)`, each occupying
    CMSG_SPACE(len) = its length rounded up to 8 bytes INSIDE the buffer (the kernel advances
    by the aligned size and counts it in msg_controllen), and — for an scm_timestamping triple —
    either the software stamp ts[0] or the hardware stamp ts[2] filled in, never ts[1]
    (deprecated, always zero) and not both (SOF_TIMESTAMPING_OPT_TX_SWHW is not requested). -/
inductive KernelChain : List Nat → Prop where
  | done (oob : List Nat) (h : oob.length < 16) : KernelChain oob
  | cons (oob : List Nat) (h16 : 16 ≤ leU oob 0 8) (hfit : align8 (leU oob 0 8) ≤ oob.length)
      (htriple : leI32 oob 8 = solSocket → leI32 oob 12 = soTimestampingNew → leU oob 0 8 = 64 →
        leI64 oob 32 = 0 ∧ leI64 oob 40 = 0 ∧
        ((leI64 oob 48 = 0 ∧ leI64 oob 56 = 0) ∨ (leI64 oob 16 = 0 ∧ leI64 oob 24 = 0)))
      (hrest : KernelChain (oob.drop (align8 (leU oob 0 8)))) : KernelChain oob

end ScionTime.UdpTx
