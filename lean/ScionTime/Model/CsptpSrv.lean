/-
  Model of core/server/server_csptp_ip.go: the CSPTP listener (`StartCSPTPServerIP`,
  `runCSPTPServerIP`) as a state machine over "one ReadMsgUDPAddrPort returned".

  What the code is at the pinned commit (the file says "work in progress"):

  * `StartCSPTPServerIP` binds `ipServerNumGoroutine` (8) SO_REUSEPORT sockets on each of the
    ports 319 (event) and 320 (general) and runs one `runCSPTPServerIP` loop per socket.
  * One loop iteration validates the datagram (length, header, message type against the port,
    request TLV) and logs exactly one record saying which branch it took.
  * The pairing of a Sync with its Follow_Up is NOT implemented: between `csptpMu.Lock()` and
    `Unlock()` the loop only reads `len(csptpClients)` and `len(csptpClientsQ)`;
    `sequenceComplete`, `sequenceID`, `syncSrcPort`, `followUpSrcPort` keep their zero values,
    `eConn`/`gConn` are never assigned (nil).  The whole `if sequenceComplete { … }` block that
    builds and sends the response pair is therefore unreachable, the package-level client table
    is never written, and the listener never sends a datagram.

  The model mirrors that, branch by branch, including the dead block (`respond`), so that the
  theorems of Props/C08CsptpSrv.lean say precisely what holds: no input panics the loop, the
  state never changes, nothing is ever sent.  Structural facts ("never assigned") are re-read
  from the source on every run by harness/extract/x_c08csptp.go.

  Buffers: the loop reuses one backing array of `MaxMessageLength` (98) bytes; `buf = buf[:n]`
  re-slices it, so bytes beyond `n` are stale (earlier datagrams).  The model carries the
  backing array to state exactly which slices are taken; Go's checked slicing is explicit
  (`sliceTo`, `sliceFrom`).  Core Lean only.
-/
import ScionTime.Model.CsptpCodec
namespace ScionTime.CsptpSrv
open ScionTime.Wire ScionTime.Csptp

/-! ### constants (pinned to /repo by Props/C08CsptpSrv.lean) -/
def eventPortIP : Nat := 319
def generalPortIP : Nat := 320
def maxMessageLength : Nat := 98
def messageTypeSync : Nat := 0
def messageTypeFollowUp : Nat := 8
def ptpVersion : Nat := 0x12
def flagTwoStep : Nat := 512
def flagUnicast : Nat := 1024
def controlSync : Nat := 0
def controlFollowUp : Nat := 2
def logMessageInterval : Int := 0x7f
def tlvTypeOrganizationExtension : Nat := 3
def orgIDMeinberg : Nat := 0xEC4670
def orgSubTypeRequest : Nat := 0x526571
def orgSubTypeResponse : Nat := 0x526573
def tlvFlagServerStateDS : Nat := 1
def csptpContextCap : Nat := 8
def csptpClientCap : Nat := 1048576
def ipServerNumGoroutine : Nat := 8

/-! ### Go slices of the receive buffer -/

/-- `b[:hi]` of a slice whose backing array holds `backing` (so `cap = backing.length`):
    panics only beyond the capacity — NOT beyond the current length. -/
def sliceTo (backing : List Nat) (hi : Nat) : Outcome (List Nat) :=
  if hi > backing.length then .panic "slice" else .ok (backing.take hi)

/-- `b[lo:]` of a slice of current length `n`: panics when `lo > n`. -/
def sliceFrom (backing : List Nat) (n lo : Nat) : Outcome (List Nat) :=
  if lo > n then .panic "slice" else .ok ((backing.take n).drop lo)

/-! ### addresses, events, outputs -/

/-- `netip.AddrPort` of the sender (the address as an opaque number) -/
structure AddrPort where
  addr : Nat
  port : Nat
deriving Repr, DecidableEq

/-- what one `conn.c.ReadMsgUDPAddrPort(buf, oob)` returned -/
inductive Event where
  /-- `err != nil` -/
  | readErr
  /-- a datagram of `wire.length` bytes on the wire; the kernel copies at most 98 of them and
      reports `MSG_TRUNC` for a longer one; `otherFlags ≠ 0`: any other receive flag
      (`MSG_CTRUNC`, …); `rxt`: the receive timestamp (kernel, or `timebase.Now()` as fallback) -/
  | dgram (wire : List Nat) (otherFlags : Nat) (src : AddrPort) (rxt : Int)
deriving Repr

/-- a datagram the listener sends -/
structure Out where
  fromPort : Nat
  dst : AddrPort
  bytes : List Nat
deriving Repr, DecidableEq

/-! ### the package-level client table (declared, never written) -/

/-- `csptpContext` -/
structure Context where
  srcPort : Nat
  rxTime : Int
  sequenceID : Nat
  correction : Int
deriving Repr, DecidableEq

/-- `csptpClient` -/
structure Client where
  key : Nat
  ctxts : List Context      -- [csptpContextCap]csptpContext, `len` of them in use
  qval : Int
  qidx : Nat
deriving Repr, DecidableEq

/-- `csptpClients` (map) and `csptpClientsQ` (heap, capacity `csptpClientCap`) -/
structure State where
  clients : List Client
  queue : List Nat
deriving Repr, DecidableEq

/-- `make(map…)`, `make(csptpClientQueue, 0, csptpClientCap)` -/
def init : State := ⟨[], []⟩

/-- the per-goroutine variables of `runCSPTPServerIP` that outlive an iteration -/
structure Sock where
  port : Nat                  -- localHostPort
  backing : List Nat          -- the 98 bytes behind `buf`
  eConn : Option Unit         -- `var eConn, gConn *udpConn` — never assigned
  gConn : Option Unit
deriving Repr, DecidableEq

/-- `buf := make([]byte, csptp.MaxMessageLength)`; `var eConn, gConn *udpConn` -/
def Sock.start (port : Nat) : Sock := ⟨port, zeros maxMessageLength, none, none⟩

/-! ### one iteration: validation -/

/-- which branch of the loop body a datagram took; every constructor but the two `request…`
    and `panic` is one `continue` of the Go code -/
inductive Verdict where
  | readErr                                   -- "failed to read packet" (error)
  | readFlags (flags : Nat)                   -- "failed to read packet" (flags)
  | short                                     -- "…: unexpected structure"
  | decodeErr                                 -- "failed to decode packet payload" (header; unreachable)
  | lengthMismatch                            -- "…: unexpected message length"
  | syncLength                                -- "…: unexpected Sync message length"
  | tlvDecode                                 -- "failed to decode packet payload" (request TLV)
  | tlvKind                                   -- "…: unexpected Follow Up message"
  | tlvLength                                 -- "…: unexpected Follow Up message length"
  | unexpectedMessage                         -- "…: unexpected message"
  | requestSync (m : Message)                 -- "received request" on the event port
  | requestFollowUp (m : Message) (t : RequestTLV)   -- "received request" on the general port
  | panic (cls : String)
deriving Repr, DecidableEq

def Verdict.isPanic : Verdict → Bool
  | .panic _ => true
  | _ => false

def Verdict.isRequest : Verdict → Bool
  | .requestSync _ => true
  | .requestFollowUp _ _ => true
  | _ => false

/-- `MSG_TRUNC` -/
def msgTrunc : Nat := 0x20

/-- the receive flags of a datagram of `len` bytes read into a 98-byte buffer -/
def recvFlags (len otherFlags : Nat) : Nat :=
  (if len > maxMessageLength then msgTrunc else 0) ||| otherFlags

/-- the backing array after the kernel copied the datagram into `buf[:cap(buf)]` -/
def recvInto (backing wire : List Nat) : List Nat :=
  wire.take maxMessageLength ++ backing.drop (min wire.length maxMessageLength)

/-- the request-TLV kind check (`reqtlv.Type != … || …OrganizationID… || …SubType…`) -/
def isRequestKind (t : RequestTLV) : Bool :=
  t.type == tlvTypeOrganizationExtension && t.organizationID == orgIDMeinberg &&
    t.organizationSubType == orgSubTypeRequest

/-- the loop body from `buf = buf[:n]` to the end of the validation: `backing` holds the 98
    bytes after the read, `n` is the datagram's (possibly truncated) length. -/
def validate (port : Nat) (backing : List Nat) (n : Nat) : Verdict :=
  if n < minMessageLength then .short else
  match sliceTo backing minMessageLength with          -- buf[:csptp.MinMessageLength]
  | .panic c => .panic c
  | .err _ => .decodeErr
  | .ok hdr =>
  match decodeMessage hdr with
  | .panic c => .panic c
  | .err _ => .decodeErr
  | .ok m =>
    if n ≠ m.messageLength then .lengthMismatch else
    if m.sdoIDMessageType = messageTypeSync ∧ port = eventPortIP then
      if n - minMessageLength ≠ 0 then .syncLength else .requestSync m
    else if m.sdoIDMessageType = messageTypeFollowUp ∧ port = generalPortIP then
      match sliceFrom backing n minMessageLength with  -- buf[csptp.MinMessageLength:]
      | .panic c => .panic c
      | .err _ => .tlvDecode
      | .ok body =>
      match decodeRequestTLV body with
      | .panic c => .panic c
      | .err _ => .tlvDecode
      | .ok t =>
        if !isRequestKind t then .tlvKind else
        if n - minMessageLength ≠ encodedTLVLength t.flagField then .tlvLength else
        .requestFollowUp m t
    else .unexpectedMessage

/-! ### one iteration: the (unimplemented) pairing and the (unreachable) response -/

/-- `sequenceID`, `sequenceComplete`, `syncSrcPort`, `followUpSrcPort` -/
structure Pairing where
  sequenceID : Nat
  sequenceComplete : Bool
  syncSrcPort : Nat
  followUpSrcPort : Nat
deriving Repr, DecidableEq

/-- ```
    var ( sequenceID uint16; sequenceComplete bool; syncSrcPort uint16; followUpSrcPort uint16 )
    csptpMu.Lock()
    // maintain CSPTP client data structure
    _ = len(csptpClients)
    _ = len(csptpClientsQ)
    csptpMu.Unlock()
    ```
    Nothing is assigned: the table is unchanged and the four variables are zero. -/
def maintain (s : State) (_v : Verdict) (_src : AddrPort) (_rxt : Int) : State × Pairing :=
  (s, ⟨0, false, 0, 0⟩)

/-- the response Sync of the dead block -/
def respSync (sequenceID : Nat) : Message :=
  { sdoIDMessageType := messageTypeSync, ptpVersion := ptpVersion, messageLength := minMessageLength,
    domainNumber := 0, minorSdoID := 0, flagField := flagTwoStep ||| flagUnicast, correctionField := 0,
    messageTypeSpecific := 0, clockID := 1, port := 1, sequenceID := sequenceID,
    controlField := controlSync, logMessageInterval := logMessageInterval, timestamp := ⟨0, 0⟩ }

/-- the response TLV of the dead block before its `Length` is filled in: all timestamps,
    corrections and the ServerStateDS are still zero ("TODO" in the source) -/
def respTLV0 : ResponseTLV :=
  { type := tlvTypeOrganizationExtension, length := 0, organizationID := orgIDMeinberg,
    organizationSubType := orgSubTypeResponse, flagField := tlvFlagServerStateDS, error := 0,
    requestIngressTimestamp := ⟨0, 0⟩, requestCorrectionField := 0, utcOffset := 0,
    serverStateDS := zeroDS }

/-- `resptlv.Length = uint16(csptp.EncodedResponseTLVLength(&resptlv))` -/
def respTLV : ResponseTLV := { respTLV0 with length := encodedTLVLength respTLV0.flagField }

/-- the response Follow_Up of the dead block:
    `msg.MessageLength += uint16(csptp.EncodedResponseTLVLength(&resptlv))` -/
def respFollowUp (sequenceID : Nat) : Message :=
  { sdoIDMessageType := messageTypeFollowUp, ptpVersion := ptpVersion,
    messageLength := minMessageLength + encodedTLVLength respTLV0.flagField,
    domainNumber := 0, minorSdoID := 0, flagField := flagUnicast, correctionField := 0,
    messageTypeSpecific := 0, clockID := 1, port := 1, sequenceID := sequenceID,
    controlField := controlFollowUp, logMessageInterval := logMessageInterval, timestamp := ⟨0, 0⟩ }

/-- what an iteration did besides logging -/
structure Effect where
  outs : List Out
  panic : Option String
deriving Repr, DecidableEq

/-- the block `if sequenceComplete { … }`.  `eConn.mu.Lock()` on a nil `*udpConn` is a nil
    dereference; with connections it would encode the Sync into `buf[:44]`, send it from the
    event socket to `(srcAddr, syncSrcPort)`, encode Follow_Up + TLV into `buf[:98]` and send
    that from the general socket to `(srcAddr, followUpSrcPort)` (socket writes assumed to
    succeed).  Returns the backing array too: the responses are written into it. -/
def respond (k : Sock) (p : Pairing) (src : AddrPort) : Sock × Effect :=
  if !p.sequenceComplete then (k, ⟨[], none⟩) else
  match sliceTo k.backing minMessageLength with                    -- buf[:msg.MessageLength]
  | .panic c => (k, ⟨[], some c⟩)
  | .err _ => (k, ⟨[], none⟩)
  | .ok b0 =>
  match encodeMessage b0 (respSync p.sequenceID) with
  | .panic c => (k, ⟨[], some c⟩)
  | .err _ => (k, ⟨[], none⟩)
  | .ok syncBytes =>
    let backing1 := syncBytes ++ k.backing.drop minMessageLength
    let k1 := { k with backing := backing1 }
    match k.eConn with
    | none => (k1, ⟨[], some "nil"⟩)                                -- eConn.mu.Lock()
    | some _ =>
      let o0 : Out := ⟨eventPortIP, ⟨src.addr, p.syncSrcPort⟩, syncBytes⟩
      let fu := respFollowUp p.sequenceID
      match sliceTo backing1 fu.messageLength with                 -- buf[:msg.MessageLength]
      | .panic c => (k1, ⟨[o0], some c⟩)
      | .err _ => (k1, ⟨[o0], none⟩)
      | .ok b1 =>
      match encodeMessage (b1.take minMessageLength) fu, encodeResponseTLV (b1.drop minMessageLength) respTLV with
      | .ok h, .ok t =>
        let k2 := { k with backing := h ++ t ++ backing1.drop fu.messageLength }
        match k.gConn with
        | none => (k2, ⟨[o0], some "nil"⟩)                          -- gConn.mu.Lock()
        | some _ => (k2, ⟨[o0, ⟨generalPortIP, ⟨src.addr, p.followUpSrcPort⟩, h ++ t⟩], none⟩)
      | .panic c, _ => (k1, ⟨[o0], some c⟩)
      | _, .panic c => (k1, ⟨[o0], some c⟩)
      | _, _ => (k1, ⟨[o0], none⟩)

/-! ### one iteration -/

/-- one iteration of the `for` loop of `runCSPTPServerIP` on socket `k` -/
def step (k : Sock) (s : State) (e : Event) : Sock × State × Verdict × Effect :=
  match e with
  | .readErr => (k, s, .readErr, ⟨[], none⟩)
  | .dgram wire otherFlags src rxt =>
    let backing := recvInto k.backing wire
    let k := { k with backing := backing }
    let flags := recvFlags wire.length otherFlags
    if flags ≠ 0 then (k, s, .readFlags flags, ⟨[], none⟩) else
    let n := min wire.length maxMessageLength
    let v := validate k.port backing n
    if !v.isRequest then (k, s, v, ⟨[], match v with | .panic c => some c | _ => none⟩) else
    let (s', p) := maintain s v src rxt
    let (k', eff) := respond k p src
    (k', s', v, eff)

/-! ### the whole listener: 16 sockets, any interleaving -/

/-- the sockets `StartCSPTPServerIP` opens: 8 on port 319, then 8 on port 320 -/
def startSocks : List Sock :=
  (List.replicate ipServerNumGoroutine (Sock.start eventPortIP)) ++
    (List.replicate ipServerNumGoroutine (Sock.start generalPortIP))

structure Sys where
  socks : List Sock
  state : State
deriving Repr, DecidableEq

def Sys.start : Sys := ⟨startSocks, init⟩

/-- socket `i` performs one iteration on event `e` (an index beyond the sockets: nothing happens) -/
def sysStep (y : Sys) (i : Nat) (e : Event) : Sys × Verdict × Effect :=
  match y.socks[i]? with
  | none => (y, .readErr, ⟨[], none⟩)
  | some k =>
    let (k', s', v, eff) := step k y.state e
    (⟨y.socks.set i k', s'⟩, v, eff)

/-- a history: which socket received what, in the order the iterations ran -/
def sysRun (y : Sys) : List (Nat × Event) → Sys × List Effect
  | [] => (y, [])
  | (i, e) :: rest =>
    let (y', _, eff) := sysStep y i e
    let (y'', effs) := sysRun y' rest
    (y'', eff :: effs)

/-! ### what the real client sends (core/client/client_csptp_ip.go, request construction) -/

/-- the client's Sync request -/
def clientSync (sequenceID : Nat) : Message :=
  { sdoIDMessageType := messageTypeSync, ptpVersion := ptpVersion, messageLength := minMessageLength,
    domainNumber := 0, minorSdoID := 0, flagField := flagTwoStep ||| flagUnicast, correctionField := 0,
    messageTypeSpecific := 0, clockID := 0, port := 1, sequenceID := sequenceID,
    controlField := controlSync, logMessageInterval := 0, timestamp := ⟨0, 0⟩ }

/-- the client's request TLV before `Length` is filled in -/
def clientTLV0 : RequestTLV :=
  { type := tlvTypeOrganizationExtension, length := 0, organizationID := orgIDMeinberg,
    organizationSubType := orgSubTypeRequest, flagField := tlvFlagServerStateDS }

/-- `reqtlv.Length = uint16(csptp.EncodedRequestTLVLength(&reqtlv))` -/
def clientTLV : RequestTLV := { clientTLV0 with length := encodedTLVLength clientTLV0.flagField }

/-- the client's Follow_Up request header -/
def clientFollowUp (sequenceID : Nat) : Message :=
  { sdoIDMessageType := messageTypeFollowUp, ptpVersion := ptpVersion,
    messageLength := minMessageLength + encodedTLVLength clientTLV0.flagField,
    domainNumber := 0, minorSdoID := 0, flagField := flagUnicast, correctionField := 0,
    messageTypeSpecific := 0, clockID := 0, port := 1, sequenceID := sequenceID,
    controlField := controlFollowUp, logMessageInterval := 0, timestamp := ⟨0, 0⟩ }

/-- the datagram the client sends to port 319 -/
def clientSyncBytes (sequenceID : Nat) : List Nat := messageBytes (clientSync sequenceID)
/-- the datagram the client sends to port 320 -/
def clientFollowUpBytes (sequenceID : Nat) : List Nat :=
  messageBytes (clientFollowUp sequenceID) ++ requestTLVBytes clientTLV

end ScionTime.CsptpSrv
