/-
  Prelude of the leaf translator, second part (seventh generation of harness/extract/leaf.go):
  the meaning given to Go maps, byte slices, crypto/rand, loops and reallocation-free `append`.
  Hand-written and therefore part of the trusted base of the regenerated tie (notes/LEAF.md says,
  construct by construct, why each rendering is what Go does). Core Lean only.
-/
import ScionTime.Model.GoPrelude
namespace ScionTime.Go

/-! ### time.Time, continued -/

/-- the zero `time.Time{}`: January 1, year 1, 00:00:00 UTC, in ns relative to the Unix epoch -/
def Time.zero : Int := -62135596800000000000

/-- `t.Add(d)` (exact on instants; the representable range of time.Time, ±292·10^9 years, is
    outside the model as for every other `time.Time` operation of the prelude) -/
def Time.add (t : Int) (d : Int64) : Int := t + d.toInt

/-! ### maps

  A Go `map[K]V` with an integer key type is a list of (key, value) entries **without duplicate
  keys** (the proof is part of the value, so a theorem quantified over `Go.Map` quantifies over
  Go maps and nothing else). The order of the entries is a detail of the representation: the
  translator only emits operations whose result, up to that order, does not depend on it
  (lookup, assignment, `delete`, and the order-independent `range`-with-`delete` idiom). It never
  emits `len` of a map or a general `range` over one. -/

structure Map (κ ν : Type) [BEq κ] where
  entries : List (κ × ν)
  nodup : entries.Pairwise (fun a b => (a.1 == b.1) = false)

namespace Map
variable {κ ν : Type} [BEq κ]

/-- `make(map[K]V)` -/
def empty : Map κ ν := ⟨[], List.Pairwise.nil⟩

/-- `v, ok := m[k]` -/
def get? (m : Map κ ν) (k : κ) : Option ν := (m.entries.find? (fun e => e.1 == k)).map (·.2)

/-- `v, ok := m[k]` as a pair (`z`: the zero value of the element type) -/
def get2 (m : Map κ ν) (k : κ) (z : ν) : ν × Bool :=
  match m.get? k with
  | some v => (v, true)
  | none => (z, false)

/-- `m[k]`: the zero value `z` of the element type when there is no entry -/
def getD (m : Map κ ν) (k : κ) (z : ν) : ν := (m.get? k).getD z

/-- `for k, v := range m { if !keep(k, v) { delete(m, k) } }` — every entry is visited exactly
    once (entries removed are the one being visited), so the result is the entries that satisfy
    `keep`, whatever the iteration order -/
def filter (keep : κ → ν → Bool) (m : Map κ ν) : Map κ ν :=
  ⟨m.entries.filter (fun e => keep e.1 e.2), m.nodup.sublist List.filter_sublist⟩

/-- `delete(m, k)` -/
def erase (m : Map κ ν) (k : κ) : Map κ ν := m.filter (fun k' _ => !(k' == k))

/-- `m[k] = v` on a non-nil map: replaces the entry of `k` if there is one -/
def set [LawfulBEq κ] (m : Map κ ν) (k : κ) (v : ν) : Map κ ν :=
  ⟨(k, v) :: (m.erase k).entries, by
    refine List.Pairwise.cons ?_ (m.erase k).nodup
    intro e he
    have := (List.mem_filter.mp he).2
    simp only [Bool.not_eq_eq_eq_not, Bool.not_true] at this
    simp only
    cases h : (k == e.1) with
    | false => rfl
    | true => have := eq_of_beq h; subst this; simp at *⟩

end Map

/-! ### byte slices, crypto/rand -/

/-- `make([]byte, n)` for a constant `n` -/
def makeBytes (n : Nat) : List UInt8 := List.replicate n 0

/-- `crypto/rand.Read(b)` against a scripted reader that holds the bytes `r`: fills `b` entirely
    and consumes `len(b)` bytes; when fewer are left the read fails (`err != nil`; with
    Go ≥ 1.24 the real reader never fails). Result: the new contents of `b`, the rest of the
    stream, the byte count and the error flag. -/
def randRead (r : List UInt8) (b : List UInt8) : List UInt8 × List UInt8 × Int64 × Bool :=
  if b.length ≤ r.length then (r.take b.length, r.drop b.length, Go.len b, false)
  else (b, r, 0, true)

/-! ### outcomes: value, Go panic, or outside the translated semantics

  A function with an unbounded `for` loop (or a possibly reallocating `append`) returns an `Out`:
  `stuck` is not a behaviour of the Go code but the translator's own limit (the iteration budget
  `ext_fuel` ran out; an `append` met `len == cap`, where Go allocates a new array of an
  implementation-defined capacity). A tie theorem proves the generated definition equal to a
  model that has no such outcome, i.e. that the limit is never met. -/

inductive Out (α : Type) where
  | ok (a : α)
  | panic (msg : String)
  | stuck
deriving Repr

def Out.bind {α β : Type} (x : Out α) (k : α → Out β) : Out β :=
  match x with
  | .ok a => k a
  | .panic m => .panic m
  | .stuck => .stuck

/-- an `Option`-valued operation of the prelude (`none` = run-time panic of class `cls`) -/
def Out.ofOption {α : Type} (cls : String) : Option α → Out α
  | some a => .ok a
  | none => .panic cls

/-! ### loops

  A loop body maps the loop state (the tuple of the variables it assigns that live outside it) to
  `next s` (end of the body or `continue`), `brk s` (`break`) or `ret r` (`return` / panic: `r` is
  the value of the whole function). -/

inductive Ctl (σ ρ : Type) where
  | next (s : σ)
  | brk (s : σ)
  | ret (r : ρ)

/-- `for i := i0; <cond>; i++ { body }` where `cond` lets exactly `n` more iterations happen
    (`tripNe` / `tripLt`), `body` does not assign `i` and the bound is loop-invariant. -/
def forCount {σ ρ : Type} : Nat → Int64 → σ → (Int64 → σ → Ctl σ ρ) → σ ⊕ ρ
  | 0, _, s, _ => .inl s
  | n + 1, i, s, body =>
    match body i s with
    | .next s' => forCount n (i + 1) s' body
    | .brk s' => .inl s'
    | .ret r => .inr r

/-- iterations of `for i := lo; i != hi; i++` (with Go's wrap-around: `(hi - lo) mod 2^64`) -/
def tripNe (lo hi : Int64) : Nat := (hi - lo).toUInt64.toNat

/-- iterations of `for i := lo; i < hi; i++` -/
def tripLt (lo hi : Int64) : Nat := if lo < hi then (hi - lo).toUInt64.toNat else 0

/-- `for { body }`, at most `fuel` iterations; `none`: the budget ran out (`stuck`) -/
def forFuel {σ ρ : Type} : Nat → σ → (σ → Ctl σ ρ) → Option (σ ⊕ ρ)
  | 0, _, _ => none
  | n + 1, s, body =>
    match body s with
    | .next s' => forFuel n s' body
    | .brk s' => some (.inl s')
    | .ret r => some (.inr r)

/-- `for i, x := range xs { body }` where `body` assigns neither `xs` nor its elements -/
def forRange {α σ ρ : Type} : List α → Int64 → σ → (Int64 → α → σ → Ctl σ ρ) → σ ⊕ ρ
  | [], _, s, _ => .inl s
  | x :: xs, i, s, body =>
    match body i x s with
    | .next s' => forRange xs (i + 1) s' body
    | .brk s' => .inl s'
    | .ret r => .inr r

/-- a failing operation inside a loop body ends the function -/
def Ctl.bindO {α σ ρ : Type} (x : Option α) (k : α → Ctl σ (Option ρ)) : Ctl σ (Option ρ) :=
  match x with
  | none => .ret none
  | some a => k a

def Ctl.bindR {α σ ρ : Type} (x : Out α) (k : α → Ctl σ (Out ρ)) : Ctl σ (Out ρ) :=
  match x with
  | .ok a => k a
  | .panic m => .ret (.panic m)
  | .stuck => .ret .stuck

/-- `s[i]` on a slice of any element type, bounds check explicit -/
def idxG? {α : Type} (s : List α) (i : Int64) : Option α :=
  if 0 ≤ i.toInt ∧ i.toInt < s.length then s[i.toInt.toNat]? else none

/-- `s[i] = v`, bounds check explicit -/
def setG? {α : Type} (s : List α) (i : Int64) (v : α) : Option (List α) :=
  if 0 ≤ i.toInt ∧ i.toInt < s.length then some (s.set i.toInt.toNat v) else none

/-- `binary.LittleEndian.Uint32(b)` / `Uint64(b)`: the little-endian number of the first 4 / 8
    bytes (`b[0] | b[1]<<8 | …`, written as a sum: the bytes occupy disjoint bit ranges);
    panics when `b` is too short -/
def leU32? (b : List UInt8) : Option UInt32 :=
  match b with
  | b0 :: b1 :: b2 :: b3 :: _ =>
    some (UInt32.ofNat (b0.toNat + 256 * b1.toNat + 65536 * b2.toNat + 16777216 * b3.toNat))
  | _ => none

def leU64? (b : List UInt8) : Option UInt64 :=
  match b with
  | b0 :: b1 :: b2 :: b3 :: b4 :: b5 :: b6 :: b7 :: _ =>
    some (UInt64.ofNat (b0.toNat + 256 * b1.toNat + 65536 * b2.toNat + 16777216 * b3.toNat +
      4294967296 * (b4.toNat + 256 * b5.toNat + 65536 * b6.toNat + 16777216 * b7.toNat)))
  | _ => none

/-! ### slices with a capacity

  A `Go.Slice` is a slice that starts at offset 0 of a backing array it does not share with any
  other slice variable the function can reach: the whole array (its length is `cap`) and `len`.
  Elements beyond `len` are kept, because reslicing (`s[:n]` with `n ≤ cap`) makes them visible
  again. What is **assumed** (notes/LEAF.md, "aliasing"): two different slice variables or fields
  rendered this way never overlap — true of values built by their constructor with separate `make`
  calls and only ever resliced from offset 0 or appended to below capacity, which is all the
  translator accepts for them. -/

structure Slice (α : Type) where
  arr : List α
  len : Nat
  ok : len ≤ arr.length

namespace Slice
variable {α : Type}

/-- the nil slice (`var s []T`, a zero struct field) -/
def nil : Slice α := ⟨[], 0, Nat.le_refl 0⟩
/-- `make([]T, 0, n)` filled with `z` beyond `len` -/
def make (z : α) (len cap : Nat) (h : len ≤ cap) : Slice α := ⟨List.replicate cap z, len, by simpa using h⟩
/-- the elements `s[0] … s[len-1]` -/
def live (s : Slice α) : List α := s.arr.take s.len
/-- `len(s)`, `cap(s)` -/
def len' (s : Slice α) : Int64 := Int64.ofNat s.len
def cap (s : Slice α) : Int64 := Int64.ofNat s.arr.length

/-- `s[i]` -/
def get? (s : Slice α) (i : Int64) : Option α :=
  if 0 ≤ i.toInt ∧ i.toInt < s.len then s.arr[i.toInt.toNat]? else none

/-- `s[:n]`: panics unless `0 ≤ n ≤ cap(s)` -/
def to? (s : Slice α) (n : Int64) : Option (Slice α) :=
  if h : 0 ≤ n.toInt ∧ n.toInt ≤ s.arr.length then some ⟨s.arr, n.toInt.toNat, by omega⟩ else none

/-- `append(s, x)` below capacity writes in place; at capacity Go allocates a new array whose
    capacity is implementation-defined: `none` (rendered as `stuck`, never as a value) -/
def append? (s : Slice α) (x : α) : Option (Slice α) :=
  if h : s.len < s.arr.length then some ⟨s.arr.set s.len x, s.len + 1, by simp; omega⟩ else none

/-- `copy(dst[a:], src[b:])`: `min(len(dst)-a, len(src)-b)` elements, read before any is written
    (Go's copy is a memmove, so `src` may be the old value of `dst` itself); `none` = the slice
    expressions panic (`a > len(dst)` or `b > len(src)`) -/
def copy? (dst : Slice α) (a : Int64) (src : Slice α) (b : Int64) : Option (Slice α) :=
  if 0 ≤ a.toInt ∧ a.toInt ≤ dst.len ∧ 0 ≤ b.toInt ∧ b.toInt ≤ src.len then
    let a' := a.toInt.toNat
    let b' := b.toInt.toNat
    let n := min (dst.len - a') (src.len - b')
    let arr := dst.arr.take a' ++ ((src.arr.drop b').take n ++ dst.arr.drop (a' + n))
    if h : dst.len ≤ arr.length then some ⟨arr, dst.len, h⟩ else none
  else none

/-- insertion of `x` into a sorted prefix as `insertionSortCmpFunc` does it: `x` moves left while
    it is strictly smaller than its left neighbour, i.e. it ends before the first element with a
    strictly greater key -/
def insertByKey (key : α → Int64) (x : α) : List α → List α
  | [] => [x]
  | y :: ys => if key x < key y then x :: y :: ys else y :: insertByKey key x ys

def sortByKey (key : α → Int64) (l : List α) : List α := l.foldl (fun acc x => insertByKey key x acc) []

theorem length_insertByKey (key : α → Int64) (x : α) (l : List α) : (insertByKey key x l).length = l.length + 1 := by
  induction l with
  | nil => rfl
  | cons y ys ih => simp only [insertByKey]; split <;> simp [ih]

theorem length_sortByKey (key : α → Int64) (l : List α) : (sortByKey key l).length = l.length := by
  unfold sortByKey
  suffices h : ∀ (l acc : List α), (l.foldl (fun acc x => insertByKey key x acc) acc).length = acc.length + l.length by
    simpa using h l []
  intro l
  induction l with
  | nil => intro acc; rfl
  | cons x xs ih => intro acc; simp only [List.foldl_cons, ih, length_insertByKey, List.length_cons]; omega

/-- `slices.SortFunc(s, func(a, b T) int { return cmp.Compare(key(a), key(b)) })`. Go promises a
    permutation sorted by the key and nothing about elements with equal keys; its implementation
    is the stable insertion sort above for up to 12 elements and pdqsort beyond. The rendering is
    exact in both regimes it accepts — at most 12 elements, or pairwise different keys (then the
    sorted permutation is unique) — and `none` (`stuck`) otherwise. -/
def sortBy? (key : α → Int64) (s : Slice α) : Option (Slice α) :=
  if s.len ≤ 12 ∨ (s.live.map key).Nodup then
    let arr := sortByKey key s.live ++ s.arr.drop s.len
    if h : s.len ≤ arr.length then some ⟨arr, s.len, h⟩ else none
  else none

end Slice

/-- an operation whose `none` is the translator's limit, not a panic -/
def Out.ofOptionStuck {α : Type} : Option α → Out α
  | some a => .ok a
  | none => .stuck

/-! ### constant indices, fixed-size arrays -/

/-- `s[K]` / `s[K] = v` for a constant `K` (no conversion of the index: `0 ≤ K < 2^63` is known
    when the translator emits it) -/
def getK? {α : Type} (s : List α) (K : Nat) : Option α := s[K]?
def setK? {α : Type} (s : List α) (K : Nat) (v : α) : Option (List α) :=
  if K < s.length then some (s.set K v) else none

/-- `a[K]` on a fixed-size array `[N]T` with constant `K < N` (checked by the Go compiler, so it
    cannot panic): the array is a list of length `N`; `z` (the zero value) is never used then -/
def arrGet {α : Type} (a : List α) (K : Nat) (z : α) : α := a.getD K z

namespace Slice
variable {α : Type}
def getK? (s : Slice α) (K : Nat) : Option α := if K < s.len then s.arr[K]? else none
def setK? (s : Slice α) (K : Nat) (v : α) : Option (Slice α) :=
  if K < s.len then some ⟨s.arr.set K v, s.len, by simpa using s.ok⟩ else none
def set? (s : Slice α) (i : Int64) (v : α) : Option (Slice α) :=
  if 0 ≤ i.toInt ∧ i.toInt < s.len then some ⟨s.arr.set i.toInt.toNat v, s.len, by simpa using s.ok⟩ else none
end Slice

/-! ### byte buffers made in the function (`cap = len`) -/

/-- `make([]byte, n)` for a run-time `n`: panics when `n < 0` -/
def makeBytesN? (n : Int64) : Option (List UInt8) :=
  if 0 ≤ n.toInt then some (List.replicate n.toInt.toNat 0) else none

/-- `binary.BigEndian.PutUint16(b[off:], v)` on a buffer whose capacity is its length (made by
    `make([]byte, n)` in the same function — the translator accepts it on nothing else): the slice
    expression panics when `off` is outside `0 … len(b)`, `PutUint16` when fewer than 2 bytes follow -/
def putU16? (b : List UInt8) (off : Int64) (v : UInt16) : Option (List UInt8) :=
  if 0 ≤ off.toInt ∧ off.toInt.toNat + 2 ≤ b.length then
    some (b.take off.toInt.toNat ++ [(v >>> 8).toUInt8, v.toUInt8] ++ b.drop (off.toInt.toNat + 2))
  else none

/-- `copy(b[off:], src)` on such a buffer: `min(len(b) - off, len(src))` bytes -/
def copyL? (dst : List UInt8) (off : Int64) (src : List UInt8) : Option (List UInt8) :=
  if 0 ≤ off.toInt ∧ off.toInt.toNat ≤ dst.length then
    let k := off.toInt.toNat
    let n := min (dst.length - k) src.length
    some (dst.take k ++ src.take n ++ dst.drop (k + n))
  else none

end ScionTime.Go
