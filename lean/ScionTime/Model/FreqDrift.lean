/-
  Model of the floating-point conversions of C18, over the shared software double
  (Model/F64.lean):
    base/unixutil/freq.go        ScaledPPMFromFreq, FreqFromScaledPPM
    base/timemath/timemath.go    Duration
    driver/clocks/sysclk_linux.go NewSystemClock (drift field), SystemClock.Drift
-/
import ScionTime.Model.F64
namespace ScionTime.FreqDrift
open ScionTime.F64

/-- the Go constant expression `65536.0 * 1e6` (folded exactly at compile time; it is
    representable as a double) -/
def scale : Int := 65536000000

/-- `ScaledPPMFromFreq(freq) = int64(freq * (65536.0 * 1e6))` -/
def scaledPPMFromFreq (freq : F64) : Int := toInt64 (mul freq (ofInt scale))

/-- `FreqFromScaledPPM(x) = float64(x) / (65536.0 * 1e6)` -/
def freqFromScaledPPM (x : Int) : F64 := div (ofInt x) (ofInt scale)

/-- `timemath.Duration(seconds)` -/
def duration (seconds : F64) : Int := toDuration seconds

/-- the `drift` field set by `NewSystemClock(log, drift)`: `drift.Seconds()` -/
def clockDrift (drift : Int) : F64 := durationSeconds drift

/-- `UnknownDrift = 0` -/
def unknownDrift : F64 := .zero false

/-- `(*SystemClock).Drift(duration)` -/
def drift (cdrift : F64) (d : Int) : Int :=
  if beq cdrift unknownDrift then 9223372036854775807
  else duration (mul (durationSeconds d) cdrift)

end ScionTime.FreqDrift
