/-
  Model of net/ntp/ntp.go: ClockOffset, RoundTripDelay, and of
  net/ntp/validation.go: ValidateResponseMetadata, ValidateResponseTimestamps.

  A `time.Time` is an `Int` count of nanoseconds since the Unix epoch (as in Time64.lean).
  `time.Duration` is Go's int64: `Int64` here, with Go's wrap-around `+ -` and truncating `/`.
  `t.Sub(u)` saturates: Go returns the exact difference when it fits into an int64 and
  otherwise `minDuration = -2^63` / `maxDuration = 2^63-1` (time.Time.Sub; wall-clock
  readings only — two readings that both carry a monotonic part are subtracted on the
  monotonic scale, which the project's kernel/wire timestamps never carry).
-/
namespace ScionTime.NtpMath

/-- `t.Sub(u)` on wall-clock times. -/
def sub64 (t u : Int) : Int64 :=
  if t - u < -9223372036854775808 then Int64.minValue
  else if t - u > 9223372036854775807 then Int64.maxValue
  else Int64.ofInt (t - u)

/-- `ntp.ClockOffset`: `(t1.Sub(t0) + t2.Sub(t3)) / 2` in int64. -/
def clockOffset64 (t0 t1 t2 t3 : Int) : Int64 := (sub64 t1 t0 + sub64 t2 t3) / 2

/-- `ntp.RoundTripDelay`: `t3.Sub(t0) - t2.Sub(t1)` in int64. -/
def roundTripDelay64 (t0 t1 t2 t3 : Int) : Int64 := sub64 t3 t0 - sub64 t2 t1

/-- The same over the integers (Go's `/` truncates: `Int.tdiv`). -/
def clockOffset (t0 t1 t2 t3 : Int) : Int := Int.tdiv ((t1 - t0) + (t2 - t3)) 2

def roundTripDelay (t0 t1 t2 t3 : Int) : Int := (t3 - t0) - (t2 - t1)

/-- Range in which no `Sub`, sum or difference of the two formulas can saturate or wrap:
    all four instants within ±2^60 ns (±36 years) of the epoch … the code only ever
    combines instants decoded relative to one reference (±2^31 s ≈ ±2^61 ns apart), so the
    predicate is stated on the pairwise differences instead. -/
def InRange (t0 t1 t2 t3 : Int) : Prop :=
  -2305843009213693952 ≤ t1 - t0 ∧ t1 - t0 ≤ 2305843009213693952 ∧
  -2305843009213693952 ≤ t2 - t3 ∧ t2 - t3 ≤ 2305843009213693952 ∧
  -2305843009213693952 ≤ t3 - t0 ∧ t3 - t0 ≤ 2305843009213693952 ∧
  -2305843009213693952 ≤ t2 - t1 ∧ t2 - t1 ≤ 2305843009213693952

/-- `ntp.ValidateResponseMetadata` over the two header bytes it reads.
    LI = bits 7..6, version = bits 5..3, mode = bits 2..0 of `lvm`. -/
def leap (lvm : Nat) : Nat := lvm / 64 % 4
def version (lvm : Nat) : Nat := lvm / 8 % 8
def mode (lvm : Nat) : Nat := lvm % 8

def validMetadata (lvm stratum : Nat) : Bool :=
  if leap lvm = 3 then false
  else if version lvm ≠ 3 ∧ version lvm ≠ 4 then false
  else if mode lvm ≠ 4 then false
  else if stratum = 0 ∨ stratum > 15 then false
  else true

/-- outcome of `ntp.ValidateResponseTimestamps` -/
inductive TsVerdict where
  | ok | panic | errResponse
deriving Repr, DecidableEq

def validateTimestamps (t0 t1 t2 t3 : Int) : TsVerdict :=
  if sub64 t3 t0 < 0 then .panic
  else if sub64 t2 t1 < 0 then .errResponse
  else .ok

end ScionTime.NtpMath
