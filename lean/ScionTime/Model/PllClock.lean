/-
  Model/PllClock.lean — the PLL (Model/Pll.lean, core/sync/adjustments/pll.go) driving the
  real clock object (Model/SysClock.lean, driver/clocks/sysclk_linux.go): the product of the
  two models.  `Pll.Do` reads `l.clk.Epoch()`, and its `l.clk.Step(..)` / `l.clk.Adjust(..)`
  calls are executed by `SysClock.step` / `SysClock.adjust`.  `l.clk.Now()` stays an input
  (`now`), as in Model/Pll.lean.

  A panic inside a clock call propagates out of `Do`:
  * `Step` panics ("epoch overflow") in `case 1` before `l.t0 = now; l.mode++` and `l.t = now`
    have run; the epoch test did not fire (the mode would be 0), so the PLL is as it was;
  * `Adjust` is the last statement of `Do`: the PLL is fully updated.

  Tie to Go: harness/cmd/c19clk (`scpll.*` ops: the real `adjustments.Pll` on the real
  `clocks.SystemClock` with a scripted `Now()`), driver Driver/C19.lean.
-/
import ScionTime.Model.Pll
import ScionTime.Model.SysClock
namespace ScionTime.PllClock
open ScionTime.F64

structure State where
  pll : Pll.State
  clk : SysClock.State
deriving DecidableEq, Repr

def init : State := { pll := Pll.init, clk := SysClock.init }

inductive Outcome where
  | ok (s : State) (acts : List SysClock.Action)
  | pllPanic (k : Pll.PanicKind)                                  -- state unchanged
  | clockPanic (k : SysClock.PanicKind) (s : State) (acts : List SysClock.Action)
deriving DecidableEq, Repr

/-- One clock call of the PLL executed on the clock object. -/
def call (c : SysClock.State) : Pll.Action → SysClock.Outcome
  | .step d => SysClock.step c d
  | .adjust o d f => SysClock.adjust c o d f

/-- The clock calls of one `Do`, in order; `before` is the PLL before the update (what it still
    is when a `Step` panics), `after` the PLL when `Do` has run to its end. -/
def calls (before after : Pll.State) (c : SysClock.State) (done : List SysClock.Action) :
    List Pll.Action → Outcome
  | [] => .ok { pll := after, clk := c } done
  | a :: rest =>
    match call c a with
    | .ok c' acts => calls before after c' (done ++ acts) rest
    | .panic k c' acts =>
      .clockPanic k { pll := (match a with | .step _ => before | .adjust _ _ _ => after), clk := c' }
        (done ++ acts)

/-- `Pll.Do(offset, weight)` on the real clock object; `now`, `pow` as in `Pll.step`. -/
def update (s : State) (now : Int) (offset : Int) (weight pow : F64) : Outcome :=
  match Pll.step s.pll (SysClock.epoch s.clk) now offset weight pow with
  | .panic k => .pllPanic k
  | .ok p' acts => calls s.pll p' s.clk [] acts

def Outcome.next (s : State) : Outcome → State
  | .ok s' _ => s'
  | .pllPanic _ => s
  | .clockPanic _ s' _ => s'

end ScionTime.PllClock
