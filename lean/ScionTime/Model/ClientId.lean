/-
  Model of the client identity the two NTP listeners hand to the timestamp store
  (`handleRequest(clientID, …)`, `updateTXTimestamp(clientID, …)`):

    core/server/server_ip.go    runIPServer:    clientID := srcAddr.Addr().String()
    core/server/server_scion.go runSCIONServer: clientID := scionLayer.SrcIA.String() + "," + srcAddr.String()

  The textual forms of the host address (`netip.Addr.String`) are inputs (strings); the
  textual form of the ISD-AS (`addr.IA.String` of scionproto: `fmt.Sprintf("%d-%s", ISD, AS)`,
  BGP-style AS numbers in decimal, all others as three `:`-separated hex groups) is modelled
  by `iaText` and compared with the library on every run (harness c13, op `id.text`).
  Core Lean only.
-/
namespace ScionTime.ClientId

/-- the separator literal of `runSCIONServer` -/
def sepChar : Char := ','
def sep : String := ","

/-- `scionLayer.SrcIA.String() + "," + srcAddr.String()` on character lists -/
def clientIdScionL (ia host : List Char) : List Char := ia ++ sepChar :: host

/-- `scionLayer.SrcIA.String() + "," + srcAddr.String()` -/
def clientIdScion (ia host : String) : String := ia ++ sep ++ host

/-- `srcAddr.Addr().String()` -/
def clientIdIp (host : String) : String := host

/-- the identity without separator (what a "simplified" key would be); NOT injective,
    see `Props/C06Ident` -/
def clientIdScionNoSep (ia host : String) : String := ia ++ host

/-- `addr.AS.String()` = `fmtAS(as, ":")` for `as ≤ MaxAS = 2^48 - 1` -/
def asText (as : Nat) : List Char :=
  if as < 4294967296 then Nat.toDigits 10 as
  else Nat.toDigits 16 (as / 4294967296 % 65536) ++ ':' ::
       (Nat.toDigits 16 (as / 65536 % 65536) ++ ':' :: Nat.toDigits 16 (as % 65536))

/-- `addr.IA.String()` of the 64-bit ISD-AS value `ia` (ISD = top 16 bits, AS = low 48) -/
def iaText (ia : Nat) : List Char :=
  Nat.toDigits 10 (ia / 281474976710656 % 65536) ++ '-' :: asText (ia % 281474976710656)

end ScionTime.ClientId
