/-
  Model of net/csptp/csptp.go: EncodeMessage/DecodeMessage (44-byte PTP header),
  EncodedRequestTLVLength/EncodeRequestTLV/DecodeRequestTLV,
  EncodedResponseTLVLength/EncodeResponseTLV/DecodeResponseTLV.

  Unsigned fields are `Nat` with range predicates, `CorrectionField`/`RequestCorrectionField`
  (int64), `LogMessageInterval` (int8) and `UTCOffset` (int16) are `Int`.  The 6-byte
  `Timestamp.Seconds` array and the 3-byte organisation id / sub-type arrays are modelled as
  their big-endian values (a bijection with `[n]uint8`).

  The encoders write into a caller-supplied buffer: `writeInto` keeps the buffer's tail and
  panics (index out of range, from the `_ = b[k]` bounds hints) when it is too short.
  Core Lean only.
-/
import ScionTime.Model.WireFields
namespace ScionTime.Csptp
open ScionTime.Wire

def minMessageLength : Nat := 44

structure Timestamp where
  seconds : Nat       -- [6]uint8, big endian
  nanoseconds : Nat   -- uint32
deriving Repr, DecidableEq

/-- `csptp.Message` -/
structure Message where
  sdoIDMessageType : Nat      -- uint8
  ptpVersion : Nat            -- uint8
  messageLength : Nat         -- uint16
  domainNumber : Nat          -- uint8
  minorSdoID : Nat            -- uint8
  flagField : Nat             -- uint16
  correctionField : Int       -- int64
  messageTypeSpecific : Nat   -- uint32
  clockID : Nat               -- uint64 (SourcePortIdentity.ClockID)
  port : Nat                  -- uint16 (SourcePortIdentity.Port)
  sequenceID : Nat            -- uint16
  controlField : Nat          -- uint8
  logMessageInterval : Int    -- int8
  timestamp : Timestamp
deriving Repr, DecidableEq

def Message.Valid (m : Message) : Prop :=
  m.sdoIDMessageType < 256 ∧ m.ptpVersion < 256 ∧ m.messageLength < 65536 ∧
  m.domainNumber < 256 ∧ m.minorSdoID < 256 ∧ m.flagField < 65536 ∧
  (-9223372036854775808 ≤ m.correctionField ∧ m.correctionField ≤ 9223372036854775807) ∧
  m.messageTypeSpecific < 4294967296 ∧ m.clockID < 18446744073709551616 ∧ m.port < 65536 ∧
  m.sequenceID < 65536 ∧ m.controlField < 256 ∧
  (-128 ≤ m.logMessageInterval ∧ m.logMessageInterval ≤ 127) ∧
  m.timestamp.seconds < 281474976710656 ∧ m.timestamp.nanoseconds < 4294967296

instance (m : Message) : Decidable m.Valid := by unfold Message.Valid; infer_instance

/-- field widths of the PTP header in wire order (sum 44) -/
def msgLayout : List Nat := [1, 1, 2, 1, 1, 2, 8, 4, 8, 2, 2, 1, 1, 6, 4]

def msgToFields (m : Message) : List Nat :=
  [m.sdoIDMessageType, m.ptpVersion, m.messageLength, m.domainNumber, m.minorSdoID, m.flagField,
   toU 64 m.correctionField, m.messageTypeSpecific, m.clockID, m.port, m.sequenceID,
   m.controlField, toU 8 m.logMessageInterval, m.timestamp.seconds, m.timestamp.nanoseconds]

def zeroMessage : Message := ⟨0, 0, 0, 0, 0, 0, 0, 0, 0, 0, 0, 0, 0, ⟨0, 0⟩⟩

def msgOfFields : List Nat → Message
  | [a, b, c, d, e, f, g, h, i, j, k, l, m, n, o] =>
    ⟨a, b, c, d, e, f, ofU 64 g, h, i, j, k, l, ofU 8 m, ⟨n, o⟩⟩
  | _ => zeroMessage

/-- the 44 header bytes -/
def messageBytes (m : Message) : List Nat := encodeFields msgLayout (msgToFields m)

/-- `EncodeMessage(b, msg)`: `_ = b[43]`, then bytes 0..43 are overwritten. -/
def encodeMessage (b : List Nat) (m : Message) : Outcome (List Nat) :=
  writeInto b minMessageLength (messageBytes m)

/-- `DecodeMessage(msg, b)`: `errUnexpectedMessageSize` below 44 bytes. -/
def decodeMessage (b : List Nat) : Outcome Message :=
  if b.length < minMessageLength then .err "size"
  else match readFields msgLayout b with
    | .ok vs => .ok (msgOfFields vs)
    | .err e => .err e
    | .panic c => .panic c

/-! ### TLVs -/

/-- common first 14 bytes of both TLVs: type, length, organisation id, sub-type, flags -/
def tlvHeadLayout : List Nat := [2, 2, 3, 3, 4]
def tlvHeadLen : Nat := 14
def tlvShortLen : Nat := 36
def tlvLongLen : Nat := 54

/-- `tlv.FlagField&TLVFlagServerStateDS == TLVFlagServerStateDS` (bit 0) -/
def hasServerStateDS (flagField : Nat) : Bool := flagField &&& 1 == 1

/-- `EncodedRequestTLVLength` / `EncodedResponseTLVLength`: 36, or 54 with the flag -/
def encodedTLVLength (flagField : Nat) : Nat :=
  if hasServerStateDS flagField then tlvShortLen + 18 else tlvShortLen

/-- `csptp.RequestTLV` -/
structure RequestTLV where
  type : Nat                  -- uint16
  length : Nat                -- uint16
  organizationID : Nat        -- [3]uint8
  organizationSubType : Nat   -- [3]uint8
  flagField : Nat             -- uint32
deriving Repr, DecidableEq

def RequestTLV.Valid (t : RequestTLV) : Prop :=
  t.type < 65536 ∧ t.length < 65536 ∧ t.organizationID < 16777216 ∧
  t.organizationSubType < 16777216 ∧ t.flagField < 4294967296

instance (t : RequestTLV) : Decidable t.Valid := by unfold RequestTLV.Valid; infer_instance

def reqToFields (t : RequestTLV) : List Nat :=
  [t.type, t.length, t.organizationID, t.organizationSubType, t.flagField]

def reqOfFields : List Nat → RequestTLV
  | [a, b, c, d, e] => ⟨a, b, c, d, e⟩
  | _ => ⟨0, 0, 0, 0, 0⟩

/-- the bytes `EncodeRequestTLV` writes: 14 header bytes, 22 zero bytes of padding, and 18 more
    zero bytes when the ServerStateDS flag is set -/
def requestTLVBytes (t : RequestTLV) : List Nat :=
  encodeFields tlvHeadLayout (reqToFields t) ++ zeros 22 ++
    (if hasServerStateDS t.flagField then zeros 18 else [])

/-- `EncodeRequestTLV(b, tlv)`: `_ = b[35]`, and `_ = b[53]` when the flag is set. -/
def encodeRequestTLV (b : List Nat) (t : RequestTLV) : Outcome (List Nat) :=
  if b.length < tlvShortLen then .panic "index"
  else writeInto b (encodedTLVLength t.flagField) (requestTLVBytes t)

/-- `DecodeRequestTLV(tlv, b)`: size error below 14 bytes; the 14 header bytes are read; size
    error when fewer bytes are present than the flag field declares.  The padding is not
    inspected. -/
def decodeRequestTLV (b : List Nat) : Outcome RequestTLV :=
  if b.length < tlvHeadLen then .err "size"
  else match readFields tlvHeadLayout b with
    | .ok vs =>
      let t := reqOfFields vs
      if b.length < encodedTLVLength t.flagField then .err "size" else .ok t
    | .err e => .err e
    | .panic c => .panic c

structure ServerStateDS where
  gmPriority1 : Nat       -- uint8
  gmClockClass : Nat      -- uint8
  gmClockAccuracy : Nat   -- uint8
  gmClockVariance : Nat   -- uint16
  gmPriority2 : Nat       -- uint8
  gmClockID : Nat         -- uint64
  stepsRemoved : Nat      -- uint16
  timeSource : Nat        -- uint8
  reserved : Nat          -- uint8
deriving Repr, DecidableEq

def zeroDS : ServerStateDS := ⟨0, 0, 0, 0, 0, 0, 0, 0, 0⟩

/-- `csptp.ResponseTLV` -/
structure ResponseTLV where
  type : Nat                     -- uint16
  length : Nat                   -- uint16
  organizationID : Nat           -- [3]uint8
  organizationSubType : Nat      -- [3]uint8
  flagField : Nat                -- uint32
  error : Nat                    -- uint16
  requestIngressTimestamp : Timestamp
  requestCorrectionField : Int   -- int64
  utcOffset : Int                -- int16
  serverStateDS : ServerStateDS
deriving Repr, DecidableEq

def ServerStateDS.Valid (d : ServerStateDS) : Prop :=
  d.gmPriority1 < 256 ∧ d.gmClockClass < 256 ∧ d.gmClockAccuracy < 256 ∧
  d.gmClockVariance < 65536 ∧ d.gmPriority2 < 256 ∧ d.gmClockID < 18446744073709551616 ∧
  d.stepsRemoved < 65536 ∧ d.timeSource < 256 ∧ d.reserved < 256

def ResponseTLV.Valid (t : ResponseTLV) : Prop :=
  t.type < 65536 ∧ t.length < 65536 ∧ t.organizationID < 16777216 ∧
  t.organizationSubType < 16777216 ∧ t.flagField < 4294967296 ∧ t.error < 65536 ∧
  t.requestIngressTimestamp.seconds < 281474976710656 ∧
  t.requestIngressTimestamp.nanoseconds < 4294967296 ∧
  (-9223372036854775808 ≤ t.requestCorrectionField ∧
    t.requestCorrectionField ≤ 9223372036854775807) ∧
  (-32768 ≤ t.utcOffset ∧ t.utcOffset ≤ 32767) ∧ t.serverStateDS.Valid

instance (d : ServerStateDS) : Decidable d.Valid := by unfold ServerStateDS.Valid; infer_instance
instance (t : ResponseTLV) : Decidable t.Valid := by unfold ResponseTLV.Valid; infer_instance

/-- bytes 14..35: error, ingress timestamp, correction, UTC offset -/
def respBodyLayout : List Nat := [2, 6, 4, 8, 2]
/-- bytes 36..53: ServerStateDS -/
def dsLayout : List Nat := [1, 1, 1, 2, 1, 8, 2, 1, 1]

def respHeadFields (t : ResponseTLV) : List Nat :=
  [t.type, t.length, t.organizationID, t.organizationSubType, t.flagField]
def respBodyFields (t : ResponseTLV) : List Nat :=
  [t.error, t.requestIngressTimestamp.seconds, t.requestIngressTimestamp.nanoseconds,
   toU 64 t.requestCorrectionField, toU 16 t.utcOffset]
def dsToFields (d : ServerStateDS) : List Nat :=
  [d.gmPriority1, d.gmClockClass, d.gmClockAccuracy, d.gmClockVariance, d.gmPriority2,
   d.gmClockID, d.stepsRemoved, d.timeSource, d.reserved]
def dsOfFields : List Nat → ServerStateDS
  | [a, b, c, d, e, f, g, h, i] => ⟨a, b, c, d, e, f, g, h, i⟩
  | _ => zeroDS

def respOfFields : List Nat → List Nat → ServerStateDS → ResponseTLV
  | [a, b, c, d, e], [f, g, h, i, j], ds => ⟨a, b, c, d, e, f, ⟨g, h⟩, ofU 64 i, ofU 16 j, ds⟩
  | _, _, _ => ⟨0, 0, 0, 0, 0, 0, ⟨0, 0⟩, 0, 0, zeroDS⟩

/-- the bytes `EncodeResponseTLV` writes: 36, plus the 18 ServerStateDS bytes with the flag -/
def responseTLVBytes (t : ResponseTLV) : List Nat :=
  encodeFields tlvHeadLayout (respHeadFields t) ++ encodeFields respBodyLayout (respBodyFields t) ++
    (if hasServerStateDS t.flagField then encodeFields dsLayout (dsToFields t.serverStateDS) else [])

/-- `EncodeResponseTLV(b, tlv)`: `_ = b[35]`, and `_ = b[53]` when the flag is set. -/
def encodeResponseTLV (b : List Nat) (t : ResponseTLV) : Outcome (List Nat) :=
  if b.length < tlvShortLen then .panic "index"
  else writeInto b (encodedTLVLength t.flagField) (responseTLVBytes t)

/-- `DecodeResponseTLV(tlv, b)`: like the request TLV for the first 14 bytes and the length
    rule; then bytes 14..35, and either bytes 36..53 (flag set) or an all-zero ServerStateDS. -/
def decodeResponseTLV (b : List Nat) : Outcome ResponseTLV :=
  if b.length < tlvHeadLen then .err "size"
  else match readFields tlvHeadLayout b with
    | .ok hd =>
      let flag := (reqOfFields hd).flagField
      if b.length < encodedTLVLength flag then .err "size"
      else match readFields respBodyLayout (b.drop tlvHeadLen) with
        | .ok body =>
          if hasServerStateDS flag then
            match readFields dsLayout (b.drop tlvShortLen) with
            | .ok ds => .ok (respOfFields hd body (dsOfFields ds))
            | .err e => .err e
            | .panic c => .panic c
          else .ok (respOfFields hd body zeroDS)
        | .err e => .err e
        | .panic c => .panic c
    | .err e => .err e
    | .panic c => .panic c

/-- what a response TLV looks like after a round trip: without the flag the ServerStateDS is
    not transmitted and decodes as zero -/
def ResponseTLV.normalize (t : ResponseTLV) : ResponseTLV :=
  if hasServerStateDS t.flagField then t else { t with serverStateDS := zeroDS }

end ScionTime.Csptp
