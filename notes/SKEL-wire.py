#!/usr/bin/env python3
"""notes/SKEL-wire.py — append the control-skeleton pin modules of notes/SKEL-wiring.json to the
lean_props of props/Cxx.json (idempotent; key order and formatting of the files are kept as
json.dump(indent=1) writes them). Run from the framework root, then tools/mkmanifest.py."""
import json, os
root = os.path.dirname(os.path.dirname(os.path.abspath(__file__)))
w = json.load(open(os.path.join(root, "notes", "SKEL-wiring.json")))
for p, mods in w.items():
    if p.startswith("_"):
        continue
    f = os.path.join(root, "props", p + ".json")
    c = json.load(open(f))
    lp = c["lean_props"] if isinstance(c["lean_props"], list) else [c["lean_props"]]
    add = [m for m in mods if m not in lp]
    if add:
        c["lean_props"] = lp + add
        json.dump(c, open(f, "w"), indent=1)
        print(p, "+=", " ".join(add))
