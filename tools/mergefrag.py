#!/usr/bin/env python3
"""tools/mergefrag.py <target> <fragment>...  — merge fragment configs (props/<frag>.json) into props/<target>.json:
union of lean_props, harness entries (by cmd+args), modelled, assumptions, trusted_base; the target's texts get a
paragraph per fragment (idempotent)."""
import json, sys, os
root = os.path.dirname(os.path.dirname(os.path.abspath(__file__)))
tgt = sys.argv[1]
tp = os.path.join(root, "props", tgt + ".json")
t = json.load(open(tp))
t["lean_props"] = t["lean_props"] if isinstance(t["lean_props"], list) else [t["lean_props"]]
t.setdefault("merged_fragments", [])
for frag in sys.argv[2:]:
    f = json.load(open(os.path.join(root, "props", frag + ".json")))
    lp = f["lean_props"] if isinstance(f["lean_props"], list) else [f["lean_props"]]
    for m in lp:
        if m not in t["lean_props"]: t["lean_props"].append(m)
    have = {(h["cmd"], tuple(h.get("args", []))) for h in t["harness"]}
    for h in f["harness"]:
        if (h["cmd"], tuple(h.get("args", []))) not in have:
            t["harness"].append(h); have.add((h["cmd"], tuple(h.get("args", []))))
    for k in ("modelled", "assumptions", "trusted_base"):
        for x in f.get(k, []):
            if x not in t.setdefault(k, []): t[k].append(x)
    if frag not in t["merged_fragments"]:
        t["merged_fragments"].append(frag)
        t["level_text"] = t["level_text"].rstrip() + f" [{frag}] " + f.get("level_text", "")
        t["level_note"] = t["level_note"].rstrip() + f" [{frag}] " + f.get("level_note", "")
        t["rule"] = t.get("rule", "").rstrip() + f" [{frag}] " + f.get("rule", "")
json.dump(t, open(tp, "w"), indent=1)
print(tgt, "lean_props:", t["lean_props"], "harness:", [h["cmd"] for h in t["harness"]])
