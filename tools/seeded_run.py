#!/usr/bin/env python3
"""
tools/seeded_run.py [--tier quick|thorough] [name-prefix ...]

Run the registered check of each kept seeded change (seeded/<name>/) against a scratch
worktree of /repo with the patch applied (VERIF_REPO), and record in meta.json whether the
check reported a VIOLATION. Nothing is applied to /repo itself.
"""
import sys, os, json, subprocess, shutil, time
root = os.path.dirname(os.path.dirname(os.path.abspath(__file__)))
tier = "quick"
args = sys.argv[1:]
if "--tier" in args:
    i = args.index("--tier"); tier = args[i + 1]; del args[i:i + 2]
names = sorted(os.listdir(os.path.join(root, "seeded")))
exact = "--exact" in args
if exact: args.remove("--exact")
if args: names = [n for n in names if any((n == a) if exact else n.startswith(a) for a in args)]
summary = []
for n in names:
    d = os.path.join(root, "seeded", n)
    mp = os.path.join(d, "meta.json")
    if not os.path.exists(mp): continue
    meta = json.load(open(mp))
    pid = meta["property"]
    if not os.path.exists(os.path.join(root, "props", pid + ".json")):
        summary.append((n, pid, "no-check-yet")); continue
    wt = f"/tmp/seedrun/{n}"
    shutil.rmtree(wt, ignore_errors=True); os.makedirs("/tmp/seedrun", exist_ok=True)
    subprocess.run(["git", "-C", "/repo", "worktree", "prune"])
    subprocess.run(["git", "-C", "/repo", "worktree", "add", "--detach", wt, "HEAD"], stdout=subprocess.DEVNULL, stderr=subprocess.DEVNULL)
    try:
        p = subprocess.run(["git", "apply", os.path.join(d, "patch.diff")], cwd=wt, capture_output=True, text=True)
        if p.returncode != 0:
            summary.append((n, pid, "patch-does-not-apply")); continue
        t0 = time.time()
        p = subprocess.run([os.path.join(root, "check"), pid, "--tier", tier], cwd=root, env=dict(os.environ, VERIF_REPO=wt, VERIF_EVIDENCE_DIR="/tmp/seedrun/evidence"), capture_output=True, text=True)
        viol = [l for l in p.stdout.split("\n") if l.startswith("VIOLATION")]
        for l in p.stdout.split("\n"):  # remove only this run's kept directory (other checks may be running)
            if "run directory kept:" in l:
                shutil.rmtree(l.split("run directory kept:")[1].strip(), ignore_errors=True)
        caught = p.returncode == 1 and bool(viol)
        rec = {"tier": tier, "caught": caught, "exit": p.returncode, "violation_lines": viol[:4], "wall_s": round(time.time() - t0, 1),
               "verif_commit": subprocess.run(["git", "-C", root, "rev-parse", "--short", "HEAD"], capture_output=True, text=True).stdout.strip()}
        meta["check_results"] = [r for r in meta.get("check_results", []) if r.get("tier") != tier] + [rec]
        json.dump(meta, open(mp, "w"), indent=1)
        summary.append((n, pid, ("CAUGHT" if caught else "MISSED") + f" ({tier}, {rec['wall_s']}s)" + (" no-failing-input" if any("no-failing-input-found" in v for v in viol) else "")))
    finally:
        subprocess.run(["git", "-C", "/repo", "worktree", "remove", "--force", wt], stdout=subprocess.DEVNULL, stderr=subprocess.DEVNULL)
# leave Gen files as /repo itself defines them
import fcntl
with open(os.path.join(root, ".build", "lake.lock"), "w") as _lk:  # same lock as ./check: never rewrite Gen under a running lake build
    fcntl.flock(_lk, fcntl.LOCK_EX)
    subprocess.run([os.path.join(root, ".build", "bin", "extract"), "-repo", "/repo", "-out", os.path.join(root, "lean", "ScionTime", "Gen")], stdout=subprocess.DEVNULL)
for s in summary: print(*s)
