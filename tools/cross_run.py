#!/usr/bin/env python3
"""
tools/cross_run.py [--out FILE] [name-prefix ...]

Cross-property run of the kept seeded changes: every seeded change touches files that are
anchors of several properties (properties.jsonl anchors.files). For each seeded change and each
OTHER property anchored in a touched file, run that property's quick check against a scratch
worktree of /repo with the patch applied and record whether it raised a violation. A miss is
not a defect of the check by itself (the change may leave that property intact) — the table is
read by hand to find blind spots (code a property depends on that its check never executes).
Nothing is applied to /repo itself. Results: JSON lines in --out (default cross_results.jsonl).
"""
import sys, os, json, subprocess, shutil, time, re
root = os.path.dirname(os.path.dirname(os.path.abspath(__file__)))
args = sys.argv[1:]
out = os.path.join(root, "cross_results.jsonl")
if "--out" in args:
    i = args.index("--out"); out = args[i + 1]; del args[i:i + 2]
props = [json.loads(l) for l in open(os.path.join(root, "properties.jsonl"))]
anch = {p["id"]: set(p["anchors"]["files"]) for p in props}
names = sorted(os.listdir(os.path.join(root, "seeded")))
if args: names = [n for n in names if any(n.startswith(a) for a in args)]
done = set()
if os.path.exists(out):
    for l in open(out):
        r = json.loads(l); done.add((r["seeded"], r["checked_property"]))
for n in names:
    d = os.path.join(root, "seeded", n)
    if not os.path.exists(os.path.join(d, "meta.json")): continue
    own = json.load(open(os.path.join(d, "meta.json")))["property"]
    files = set(re.findall(r"^\+\+\+ b/(\S+)", open(os.path.join(d, "patch.diff")).read(), re.M))
    others = [p for p in anch if p != own and anch[p] & files and (n, p) not in done]
    if not others: continue
    wt = f"/tmp/crossrun/{n}"
    shutil.rmtree(wt, ignore_errors=True); os.makedirs("/tmp/crossrun", exist_ok=True)
    subprocess.run(["git", "-C", "/repo", "worktree", "prune"])
    subprocess.run(["git", "-C", "/repo", "worktree", "add", "--detach", wt, "HEAD"], stdout=subprocess.DEVNULL, stderr=subprocess.DEVNULL)
    try:
        if subprocess.run(["git", "apply", os.path.join(d, "patch.diff")], cwd=wt).returncode != 0:
            continue
        for p in others:
            t0 = time.time()
            r = subprocess.run([os.path.join(root, "check"), p, "--tier", "quick"], cwd=root, capture_output=True, text=True,
                               env=dict(os.environ, VERIF_REPO=wt, VERIF_EVIDENCE_DIR="/tmp/crossrun/evidence"))
            viol = [l for l in r.stdout.split("\n") if l.startswith("VIOLATION")]
            for l in r.stdout.split("\n"):
                if "run directory kept:" in l:
                    shutil.rmtree(l.split("run directory kept:")[1].strip(), ignore_errors=True)
            rec = {"seeded": n, "own_property": own, "checked_property": p, "files": sorted(files), "caught": r.returncode == 1 and bool(viol),
                   "exit": r.returncode, "violation_lines": viol[:2], "wall_s": round(time.time() - t0, 1)}
            open(out, "a").write(json.dumps(rec) + "\n")
            print(n, "->", p, "CAUGHT" if rec["caught"] else "missed", rec["wall_s"], flush=True)
    finally:
        subprocess.run(["git", "-C", "/repo", "worktree", "remove", "--force", wt], stdout=subprocess.DEVNULL, stderr=subprocess.DEVNULL)
