#!/usr/bin/env python3
"""Regenerate MANIFEST.json from props/*.json (claimed checks) and properties.jsonl."""
import json, glob, os, subprocess
root = os.path.dirname(os.path.dirname(os.path.abspath(__file__)))
ids = [json.loads(l)["id"] for l in open(os.path.join(root, "properties.jsonl"))]

def technique_of(c):
    t = c.get("technique", "Lean 4 theorems over a hand-written executable model; model tied to /repo by differential execution (correspondence) and regenerated constants")
    lp = c["lean_props"] if isinstance(c["lean_props"], list) else [c["lean_props"]]
    leaf = [m.split(".")[-1] for m in lp if ".Leaf" in m or m.split(".")[-1] in ("C19Gen", "C19GenClock")]
    skel = [m.split(".")[-1] for m in lp if ".Skel" in m]
    ties = []
    if leaf:
        ties.append("Go-AST->Lean leaf translations regenerated on every run and proved equal to the model for all inputs (" + ", ".join(leaf) + ")")
    if skel:
        ties.append("control skeletons of the effectful functions regenerated on every run and pinned to the annotated transcription the model was written against (" + ", ".join(skel) + ")")
    if ties:
        t += " + regenerated ties: " + "; ".join(ties)
    return t

checks, na = [], []
na_reasons = json.load(open(os.path.join(root, "props", "not_applicable.json"))) if os.path.exists(os.path.join(root, "props", "not_applicable.json")) else {}
for pid in ids:
    p = os.path.join(root, "props", pid + ".json")
    if not os.path.exists(p) or json.load(open(p)).get("claimed") is False:
        na.append({"property_id": pid, "reason": na_reasons.get(pid, "check not built yet in this round (model and correspondence planned in DESIGN.md section 8); not claimed")})
        continue
    c = json.load(open(p))
    checks.append({
        "property_id": pid,
        "quick_cmd": f"./check {pid} --tier quick",
        "thorough_cmd": f"./check {pid} --tier thorough",
        "evidence_file": f"/verif/evidence/{pid}.json",
        "replay_cmd_template": f"./check {pid} --replay {{path}}",
        "engine": "lean4-proof+correspondence",
        "level_claimed": {"category": c.get("level", "proof"), "text": c["level_text"], "design_ref": c.get("design_ref", "DESIGN.md section 8 / " + pid)},
        "level_note": c["level_note"],
        "technique": technique_of(c),
    })
hooks_commits = subprocess.run(["git", "-C", "/repo", "log", "--format=%h %s", "--grep=^verif hooks"], capture_output=True, text=True).stdout.strip().split("\n")
man = {
    "version": 1,
    "setup_cmd": "./setup.sh",
    "hooks": {
        "guard": "verif",
        "enable": "go build -tags verif (harness module replaces example.com/scion-time => /repo)",
        "baseline_off_cmd": "cd /repo && go test -vet=off -count=1 -timeout 25m ./...",
        "source_commits": [c.split(" ")[0] for c in hooks_commits if c],
        "add_only": True,
    },
    "engines": [{"name": "lean4-proof+correspondence", "path": "/verif/check", "serves_properties": [c["property_id"] for c in checks],
                 "kind_free_text": "Lean 4 (core) model + theorems in /verif/lean; Go harness in /verif/harness runs the real code and the compiled Lean model on the same op lines and evaluates a direct property oracle"}],
    "checks": checks,
    "not_applicable": na,
    "notes": "See DESIGN.md. known_findings.json lists recorded defects and fix: commits. Checks serialise their lake/go build steps with flock and may run in parallel.",
}
json.dump(man, open(os.path.join(root, "MANIFEST.json"), "w"), indent=1)
print(f"{len(checks)} checks, {len(na)} not claimed")
