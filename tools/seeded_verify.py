#!/usr/bin/env python3
"""
tools/seeded_verify.py <prop-id> <src-dir> [--name NAME]

Confirm a seeded breaking change independently and, if everything holds, keep it as
/verif/seeded/<NAME>/ (patch.diff, the demonstration, README.md, meta.json):
  (a) the patch applies to /repo's HEAD, `go build ./...` and the full test suite pass with it;
  (b) the demonstration fails with the patch;
  (c) the demonstration passes without it.
Everything runs in a scratch worktree under /tmp/seedchk, removed afterwards.
<src-dir> holds patch.diff, README.md (naming the demo's intended path in back-ticks after
"intended path") and the demo file (*.go or *.go.txt).
"""
import sys, os, re, json, shutil, subprocess, time

def sh(cmd, cwd, env=None, timeout=1800):
    e = dict(os.environ, GOFLAGS="-mod=mod", GOPROXY="off", GOEXPERIMENT="synctest")
    if env: e.update(env)
    p = subprocess.run(cmd, cwd=cwd, env=e, shell=isinstance(cmd, str), stdout=subprocess.PIPE, stderr=subprocess.STDOUT, text=True, timeout=timeout)
    return p.returncode, p.stdout

def main():
    pid, src = sys.argv[1], os.path.abspath(sys.argv[2])
    name = None
    if "--name" in sys.argv: name = sys.argv[sys.argv.index("--name") + 1]
    name = name or f"{pid}-{os.path.basename(src)}"
    readme = open(os.path.join(src, "README.md")).read()
    m = re.search(r"intended path[^`]*`([^`]+)`", readme) or re.search(r"`((?:base|core|net|driver)/[^`]*_test\.go)`", readme)
    demos = [f for f in os.listdir(src) if f.endswith(".go") or f.endswith(".go.txt")]
    if not m or len(demos) != 1:
        print("cannot determine demo / intended path:", demos, bool(m)); sys.exit(2)
    dest = m.group(1)
    if not dest.endswith(".go"): 
        print("intended path looks wrong:", dest); sys.exit(2)
    demo = demos[0]
    wt = f"/tmp/seedchk/{name}"
    shutil.rmtree(wt, ignore_errors=True)
    os.makedirs("/tmp/seedchk", exist_ok=True)
    sh(["git", "-C", "/repo", "worktree", "prune"], "/")
    rc, out = sh(["git", "-C", "/repo", "worktree", "add", "--detach", wt, "HEAD"], "/")
    if rc != 0: print(out); sys.exit(2)
    res = {"property": pid, "name": name, "repo_head": sh(["git", "rev-parse", "HEAD"], wt)[1].strip()}
    try:
        rc, out = sh(["git", "apply", os.path.join(src, "patch.diff")], wt)
        res["applies"] = rc == 0
        if rc != 0:
            print("patch does not apply:", out); return res
        rc, out = sh("go build ./... && go test -vet=off -count=1 ./...", wt)
        res["suite_passes_with_change"] = rc == 0
        if rc != 0: print(out[-2000:])
        pkg = "./" + os.path.dirname(dest) + "/"
        shutil.copy(os.path.join(src, demo), os.path.join(wt, dest))
        rc1, out1 = sh(["go", "test", "-vet=off", "-count=1", pkg], wt, timeout=600)
        res["demo_fails_with_change"] = rc1 != 0
        res["demo_output_with_change"] = out1[-1500:]
        os.remove(os.path.join(wt, dest))
        rc, out = sh(["git", "apply", "-R", os.path.join(src, "patch.diff")], wt)
        shutil.copy(os.path.join(src, demo), os.path.join(wt, dest))
        rc2, out2 = sh(["go", "test", "-vet=off", "-count=1", pkg], wt, timeout=600)
        res["demo_passes_without_change"] = rc2 == 0
        if rc2 != 0: res["demo_output_without_change"] = out2[-1500:]
        return res
    finally:
        sh(["git", "-C", "/repo", "worktree", "remove", "--force", wt], "/")
        ok = all(res.get(k) for k in ("applies", "suite_passes_with_change", "demo_fails_with_change", "demo_passes_without_change"))
        print(json.dumps({k: v for k, v in res.items() if not k.startswith("demo_output")}, indent=1))
        if ok:
            root = os.path.dirname(os.path.dirname(os.path.abspath(__file__)))
            dst = os.path.join(root, "seeded", name)
            os.makedirs(dst, exist_ok=True)
            shutil.copy(os.path.join(src, "patch.diff"), dst)
            shutil.copy(os.path.join(src, "README.md"), dst)
            shutil.copy(os.path.join(src, demo), os.path.join(dst, demo if demo.endswith(".txt") else demo + ".txt"))
            meta = {"property": pid, "breaks": "see README.md", "demo_intended_path": dest,
                    "confirmed": {"at_repo_head": res["repo_head"], "suite_passes_with_change": True, "demo_fails_with_change": True,
                                  "demo_passes_without_change": True, "by": "tools/seeded_verify.py in a scratch worktree"},
                    "needs_to_manifest": "see README.md", "check_results": []}
            mp = os.path.join(dst, "meta.json")
            if os.path.exists(mp):
                old = json.load(open(mp)); meta["check_results"] = old.get("check_results", [])
            json.dump(meta, open(mp, "w"), indent=1)
            print("kept as", dst)
        else:
            print("NOT kept")

if __name__ == "__main__":
    main()
