#!/usr/bin/env python3
"""Refresh the generated tables of DESIGN.md section 13 (between <!-- BEGIN:x --> / <!-- END:x --> markers):
per-property status (props/*.json + evidence/*.json), fixes and known findings (known_findings.json),
seeded changes (seeded/*/meta.json)."""
import json, glob, os, re, subprocess
root = os.path.dirname(os.path.dirname(os.path.abspath(__file__)))
ids = [json.loads(l)["id"] for l in open(os.path.join(root, "properties.jsonl"))]
man = json.load(open(os.path.join(root, "MANIFEST.json")))
claimed = {c["property_id"] for c in man["checks"]}

def status_table():
    rows = ["| id | claimed | Props modules (theorems audited) | harness commands | quick: ops / wall | notes |", "|---|---|---|---|---|---|"]
    for pid in ids:
        pp = os.path.join(root, "props", pid + ".json")
        if not os.path.exists(pp):
            rows.append(f"| {pid} | no | — | — | — | not built |"); continue
        c = json.load(open(pp))
        lp = c["lean_props"] if isinstance(c["lean_props"], list) else [c["lean_props"]]
        ev = os.path.join(root, "evidence", pid + ".json")
        thm, ops, wall = "?", "?", "?"
        if os.path.exists(ev):
            e = json.load(open(ev)); thm = f"{e['coverage']['discharged']}/{e['coverage']['obligations']}"; ops = e['coverage']['evaluations']; wall = f"{e['wall_s']} s ({e['tier']})"
        rows.append(f"| {pid} | {'yes' if pid in claimed else 'no'} | {', '.join(m.split('.')[-1] for m in lp)} ({thm}) | {', '.join(h['cmd'] for h in c['harness'])} | {ops} / {wall} | notes/{pid}.md |")
    return "\n".join(rows)

def fixes_table():
    k = json.load(open(os.path.join(root, "known_findings.json")))
    rows = ["| property | /repo commit | what failed |", "|---|---|---|"]
    for f in k["fixed"]:
        m = re.match(r"fixed: property=(\S+) (\S+) (.*)", f)
        if m: rows.append(f"| {m.group(1)} | {m.group(2)} | {m.group(3).replace('|', '/')} |")
    rows.append("")
    rows.append("| property | known finding (recorded, not repaired) | signature |"); rows.append("|---|---|---|")
    for f in k["findings"]:
        if f.get("status") == "known": rows.append(f"| {f['property']} | {f['what'].replace('|','/')} | `{f['sig']}` |")
    return "\n".join(rows)

def seeded_table():
    rows = ["| seeded change | property | what it breaks / needs (from its README) | result of the registered check |", "|---|---|---|---|"]
    for d in sorted(glob.glob(os.path.join(root, "seeded", "*"))):
        mp = os.path.join(d, "meta.json")
        if not os.path.exists(mp): continue
        m = json.load(open(mp))
        rd = open(os.path.join(d, "README.md")).read().strip().split("\n")
        title = next((l.strip("# ").strip() for l in rd if l.strip()), "")[:150].replace("|", "/")
        res = []
        for r in m.get("check_results", []):
            v = "caught" if r["caught"] else "MISSED"
            if r["caught"] and any("no-failing-input-found" in x for x in r.get("violation_lines", [])): v += " (no-failing-input-found)"
            res.append(f"{r['tier']}: {v}, {r['wall_s']} s")
        rows.append(f"| {os.path.basename(d)} | {m['property']} | {title} | {'; '.join(res) or 'not run'}{' — ' + m['note'] if m.get('note') else ''} |")
    return "\n".join(rows)

p = os.path.join(root, "DESIGN.md")
s = open(p).read()
for name, fn in (("status", status_table), ("fixes", fixes_table), ("seeded", seeded_table)):
    b, e = f"<!-- BEGIN:{name} -->", f"<!-- END:{name} -->"
    if b in s and e in s:
        s = s[:s.index(b) + len(b)] + "\n" + fn() + "\n" + s[s.index(e):]
open(p, "w").write(s)
print("tables refreshed")
