#!/bin/sh
# tools/seeded_ingest.sh <Cxx> <srcroot> [first-index] — confirm each delivered change <srcroot>/<k>/ with
# seeded_verify.py (scratch worktree), keep it as seeded/<Cxx>-<n>, then run the registered quick check against it.
id="$1"; src="$2"; n="${3:-4}"
cd "$(dirname "$0")/.."
for d in "$src"/*/; do
  [ -f "$d/patch.diff" ] || continue
  name="$id-$n"; n=$((n+1))
  echo "== $name <- $d"
  GOEXPERIMENT=synctest python3 tools/seeded_verify.py "$id" "$d" --name "$name" 2>&1 | tail -12
  [ -d "seeded/$name" ] && python3 tools/seeded_run.py "$name" 2>&1 | tail -3
done
