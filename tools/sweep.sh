#!/bin/sh
# tools/sweep.sh "<seeds>" <tier> [props...] — unchanged-tree sweep; prints one line per run, exit 1 if any run raised an alarm
seeds="$1"; tier="$2"; shift 2
props="$@"
[ -z "$props" ] && props=$(python3 -c "import json;print(' '.join(c['property_id'] for c in json.load(open('MANIFEST.json'))['checks']))")
rc=0
for s in $seeds; do for p in $props; do
  out=$(VERIF_SEED=$s ./check $p --tier $tier 2>&1); e=$?
  echo "seed=$s $(echo "$out" | grep '^\[' | tail -1) exit=$e"
  if [ $e -ne 0 ]; then rc=1; echo "$out" | grep -v "^KNOWN" | tail -12; fi
done; done
exit $rc
