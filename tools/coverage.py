#!/usr/bin/env python3
"""
tools/coverage.py [--tier quick|thorough] [Cxx ...] — statement coverage of /repo reached by each
property's harness commands (go build -cover -coverpkg=example.com/scion-time/...), reported for the
files the property is anchored in (properties.jsonl anchors.files): percentage and the
uncovered blocks. Used by hand to find code a property depends on that its check never executes.
Writes notes/coverage/<Cxx>.txt. Not part of any registered check.
"""
import sys, os, json, subprocess, shutil, re, collections
root = os.path.dirname(os.path.dirname(os.path.abspath(__file__)))
args = sys.argv[1:]; tier = "quick"
if "--tier" in args:
    i = args.index("--tier"); tier = args[i + 1]; del args[i:i + 2]
props = {json.loads(l)["id"]: json.loads(l) for l in open(os.path.join(root, "properties.jsonl"))}
ids = args or sorted(props)
env = dict(os.environ, GOFLAGS="-mod=mod", GOPROXY="off"); env.pop("GOSUMDB", None); env.pop("GOTOOLCHAIN", None)
os.makedirs(os.path.join(root, "notes", "coverage"), exist_ok=True)
for pid in ids:
    cfg = json.load(open(os.path.join(root, "props", pid + ".json")))
    work = f"/tmp/cov/{pid}"; shutil.rmtree(work, ignore_errors=True); os.makedirs(work + "/data")
    for h in cfg["harness"]:
        e = dict(env); e.update(h.get("env", {})); e["GOCOVERDIR"] = work + "/data"
        b = f"{work}/h_{h['cmd']}"
        r = subprocess.run(["go", "build", "-cover", "-coverpkg=./...,example.com/scion-time/...", "-tags", "verif", "-o", b, "./cmd/" + h["cmd"]],
                           cwd=os.path.join(root, "harness"), env=e, capture_output=True, text=True)
        if r.returncode != 0:
            print(pid, h["cmd"], "build failed", r.stdout[-300:], r.stderr[-300:]); continue
        subprocess.run([b, "-seed", "1", "-tier", tier, "-out", f"{work}/out_{h['cmd']}"] + h.get("args", []), cwd=os.path.join(root, "harness"),
                       env=e, capture_output=True, text=True, timeout=3000)
    prof = work + "/profile.txt"
    subprocess.run(["go", "tool", "covdata", "textfmt", "-i=" + work + "/data", "-o=" + prof], cwd=os.path.join(root, "harness"), env=env)
    blocks = collections.defaultdict(dict)
    if os.path.exists(prof):
        for l in open(prof):
            m = re.match(r"example.com/scion-time/(\S+):(\d+)\.\d+,(\d+)\.\d+ (\d+) (\d+)", l)
            if m:
                f, a, b_, n, c = m.group(1), int(m.group(2)), int(m.group(3)), int(m.group(4)), int(m.group(5))
                old = blocks[f].get((a, b_), (n, 0))
                blocks[f][(a, b_)] = (n, max(c, old[1]))
    out = []
    for f in props[pid]["anchors"]["files"]:
        bl = blocks.get(f, {})
        tot = sum(n for n, c in bl.values()); cov = sum(n for n, c in bl.values() if c > 0)
        out.append(f"{f}: {cov}/{tot} statements covered" + (f" ({100 * cov // tot}%)" if tot else " (no data)"))
        src = open(os.path.join("/repo", f)).read().split("\n") if os.path.exists(os.path.join("/repo", f)) else []
        for (a, b_), (n, c) in sorted(bl.items()):
            if c == 0:
                out.append(f"    uncovered {a}-{b_}: " + (src[a - 1].strip()[:110] if a - 1 < len(src) else ""))
    open(os.path.join(root, "notes", "coverage", pid + ".txt"), "w").write("\n".join(out) + "\n")
    print(pid, "; ".join(o for o in out if not o.startswith("    ")))
    shutil.rmtree(work, ignore_errors=True)
